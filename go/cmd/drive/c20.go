package main

import (
	"encoding/json"
	"fmt"
	"sort"
	"unicode"

	"github.com/go-text/typesetting/di"
	"github.com/go-text/typesetting/language"
	ucd "github.com/go-text/typesetting/unicodedata"

	"verifharness/internal/vh"
)

// c20Input is one replayable case: a code point, a pair of code points, a Direction byte,
// a language string (raw bytes) or a LangID.
type c20Input struct {
	K  string `json:"k"` // cp | pair | dir | lang | id | sweep
	R  int64  `json:"r,omitempty"`
	A  int64  `json:"a,omitempty"`
	B  int64  `json:"b,omitempty"`
	D  int    `json:"d,omitempty"`
	S  []byte `json:"s,omitempty"`
	ID int    `json:"id,omitempty"`
	Lo int64  `json:"lo,omitempty"` // sweep: code points Lo..Hi-1
	Hi int64  `json:"hi,omitempty"`
}

func init() {
	drivers["c20"] = &driver{
		header: "From TV Require Import Check.C20.",
		shard:  400,
		n: func(tier string) int {
			if tier == "quick" {
				return 3000
			}
			return 30000
		},
		decode: func(raw json.RawMessage) (any, error) {
			var in c20Input
			err := json.Unmarshal(raw, &in)
			return in, err
		},
		gen: c20Gen,
		run: c20Run,
	}
}

// ---- class identifiers (must agree with go/cmd/gotocoq) ----

type c20Classes struct {
	gc, lb, gb, wb map[*unicode.RangeTable]int
}

var c20cls *c20Classes

func c20ClassIDs() *c20Classes {
	if c20cls != nil {
		return c20cls
	}
	c := &c20Classes{gc: map[*unicode.RangeTable]int{}, lb: map[*unicode.RangeTable]int{}, gb: map[*unicode.RangeTable]int{}, wb: map[*unicode.RangeTable]int{}}
	var names []string
	byName := map[string]*unicode.RangeTable{}
	catName := map[*unicode.RangeTable]string{}
	for k, t := range unicode.Categories {
		if len(k) == 2 {
			catName[t] = k
		}
	}
	for _, t := range ucd.VerifC20Categories() {
		names = append(names, catName[t])
		byName[catName[t]] = t
	}
	sort.Strings(names)
	for i, n := range names {
		c.gc[byName[n]] = i
	}
	first := func(m map[*unicode.RangeTable]int, arr []*unicode.RangeTable) {
		for i, t := range arr {
			if _, ok := m[t]; !ok {
				m[t] = i
			}
		}
	}
	lbs := ucd.VerifC20LineBreaks()
	first(c.lb, lbs)
	if _, ok := c.lb[ucd.BreakXX]; !ok {
		c.lb[ucd.BreakXX] = len(lbs)
	}
	gbs, _ := ucd.VerifC20GraphemeBreaks()
	first(c.gb, gbs)
	wbs, _ := ucd.VerifC20WordBreaks()
	first(c.wb, wbs)
	c20cls = c
	return c
}

func c20ID(m map[*unicode.RangeTable]int, t *unicode.RangeTable) int64 {
	if t == nil {
		return -1
	}
	if i, ok := m[t]; ok {
		return int64(i)
	}
	return -2 // a table outside the class list: never equal to a model answer
}

// ---- generators ----

// c20Pool returns the interesting code points: every boundary (and its neighbours) of every range of every
// table the lookups scan, keys and values of the maps, Hangul block boundaries, and int32 corner values.
func c20Pool() []int64 {
	seen := map[int64]bool{}
	var pool []int64
	add := func(x int64) {
		if x < -(1<<31) || x >= 1<<31 {
			return
		}
		if !seen[x] {
			seen[x] = true
			pool = append(pool, x)
		}
	}
	addTab := func(t *unicode.RangeTable) {
		if t == nil {
			return
		}
		for _, r := range t.R16 {
			lo, hi, st := int64(r.Lo), int64(r.Hi), int64(r.Stride)
			add(lo - 1)
			add(lo)
			add(hi)
			add(hi + 1)
			if st > 1 {
				add(lo + 1)
				add(lo + st)
				add(hi - 1)
			}
		}
		for _, r := range t.R32 {
			lo, hi, st := int64(r.Lo), int64(r.Hi), int64(r.Stride)
			add(lo - 1)
			add(lo)
			add(hi)
			add(hi + 1)
			if st > 1 {
				add(lo + 1)
				add(lo + st)
				add(hi - 1)
			}
		}
	}
	for _, x := range []int64{-1, 0, 0x7f, 0x80, 0xff, 0x100, 0xd7ff, 0xd800, 0xdfff, 0xe000, 0xfffd, 0xffff, 0x10000, 0x10ffff, 0x110000,
		1<<31 - 1, -(1 << 31), -(1 << 31) + 44031, -(1 << 31) + 44032, -(1 << 31) + 44033, -65536, -44032, 1 << 16, 1<<16 + 65, 1<<20 + 0x41} {
		add(x)
	}
	for _, x := range []int64{ucd.HangulSBase, ucd.HangulLBase, ucd.HangulVBase, ucd.HangulTBase,
		ucd.HangulSBase + ucd.HangulSCount, ucd.HangulLBase + ucd.HangulLCount, ucd.HangulVBase + ucd.HangulVCount, ucd.HangulTBase + ucd.HangulTCount} {
		for d := int64(-2); d <= 2; d++ {
			add(x + d)
		}
	}
	for i := int64(0); i < 3*ucd.HangulTCount+2; i++ {
		add(ucd.HangulSBase + i)
		add(ucd.HangulSBase + ucd.HangulSCount - i)
	}
	for _, r := range language.ScriptRanges {
		add(int64(r.Start) - 1)
		add(int64(r.Start))
		add(int64(r.End))
		add(int64(r.End) + 1)
	}
	for _, t := range ucd.VerifC20Categories() {
		addTab(t)
	}
	for _, t := range ucd.VerifC20CombiningClasses() {
		addTab(t)
	}
	for _, t := range ucd.VerifC20LineBreaks() {
		addTab(t)
	}
	gbs, gbAll := ucd.VerifC20GraphemeBreaks()
	for _, t := range gbs {
		addTab(t)
	}
	addTab(gbAll)
	wbs, wbAll := ucd.VerifC20WordBreaks()
	for _, t := range wbs {
		addTab(t)
	}
	addTab(wbAll)
	mir := ucd.VerifC20Mirroring()
	d1, d2, comp := ucd.VerifC20Decompositions()
	var keys []int64
	for k, v := range mir {
		keys = append(keys, int64(k), int64(v))
	}
	for k, v := range d1 {
		keys = append(keys, int64(k), int64(v))
	}
	for k, v := range d2 {
		keys = append(keys, int64(k), int64(v[0]), int64(v[1]))
	}
	for k, v := range comp {
		keys = append(keys, int64(k[0]), int64(k[1]), int64(v))
	}
	sort.Slice(keys, func(i, j int) bool { return keys[i] < keys[j] })
	for _, k := range keys {
		add(k)
	}
	return pool
}

func c20Pairs() [][2]int64 {
	_, d2, comp := ucd.VerifC20Decompositions()
	var out [][2]int64
	for _, v := range d2 {
		out = append(out, [2]int64{int64(v[0]), int64(v[1])})
	}
	for k := range comp {
		out = append(out, [2]int64{int64(k[0]), int64(k[1])}, [2]int64{int64(k[1]), int64(k[0])}, [2]int64{int64(k[0]), int64(k[1]) + 1})
	}
	sort.Slice(out, func(i, j int) bool {
		if out[i][0] != out[j][0] {
			return out[i][0] < out[j][0]
		}
		return out[i][1] < out[j][1]
	})
	// Hangul: block corners and every L x {first,last V}, LV x T corners
	for _, a := range []int64{ucd.HangulLBase - 1, ucd.HangulLBase, ucd.HangulLBase + ucd.HangulLCount - 1, ucd.HangulLBase + ucd.HangulLCount} {
		for _, b := range []int64{ucd.HangulVBase - 1, ucd.HangulVBase, ucd.HangulVBase + ucd.HangulVCount - 1, ucd.HangulVBase + ucd.HangulVCount} {
			out = append(out, [2]int64{a, b})
		}
	}
	for _, a := range []int64{ucd.HangulSBase - 1, ucd.HangulSBase, ucd.HangulSBase + 1, ucd.HangulSBase + ucd.HangulTCount, ucd.HangulSBase + ucd.HangulTCount - 1,
		ucd.HangulSBase + ucd.HangulSCount - ucd.HangulTCount, ucd.HangulSBase + ucd.HangulSCount - 1, ucd.HangulSBase + ucd.HangulSCount} {
		for _, b := range []int64{ucd.HangulTBase - 1, ucd.HangulTBase, ucd.HangulTBase + 1, ucd.HangulTBase + ucd.HangulTCount - 1, ucd.HangulTBase + ucd.HangulTCount} {
			out = append(out, [2]int64{a, b})
		}
	}
	return out
}

// c20HangulPairs enumerates the pairs around the conjoining jamo blocks: every a in U+10FF..U+1113 with every b in
// U+1160..U+117E, and syllables (first and last LV, LVT neighbours, block edges and just outside; thorough: every
// LV syllable and its two neighbours) with every b in TBase-2 .. TBase+TCount+1.
func c20HangulPairs(tier string) [][2]int64 {
	var out [][2]int64
	for a := int64(ucd.HangulLBase) - 1; a <= ucd.HangulLBase+ucd.HangulLCount; a++ {
		for b := int64(ucd.HangulVBase) - 1; b < ucd.HangulVBase+ucd.HangulVCount+9; b++ {
			out = append(out, [2]int64{a, b})
		}
	}
	var as []int64
	S, T, N := int64(ucd.HangulSBase), int64(ucd.HangulTCount), int64(ucd.HangulSCount)
	if tier == "quick" {
		as = []int64{S - 2, S - 1, S, S + 1, S + T - 1, S + T, S + T + 1, S + 2*T, S + 588, S + 589, S + N/2/T*T, S + N/2/T*T + 5,
			S + N - T - 1, S + N - T, S + N - T + 1, S + N - 1, S + N, S + N + 1, S + N + T - N%T, ucd.HangulLBase, ucd.HangulVBase, ucd.HangulTBase + 1}
	} else {
		as = []int64{S - 2, S - 1, S + N, S + N + 1, S + N + T, ucd.HangulLBase, ucd.HangulVBase, ucd.HangulTBase + 1}
		for a := S; a < S+N; a += T {
			as = append(as, a, a+1, a+T-1)
		}
	}
	for _, a := range as {
		for b := int64(ucd.HangulTBase) - 2; b < ucd.HangulTBase+ucd.HangulTCount+2; b++ {
			out = append(out, [2]int64{a, b})
		}
	}
	return out
}

func c20RandomCP(r *vh.Rand) int64 {
	switch r.Intn(10) {
	case 0:
		return int64(r.Intn(0x300))
	case 1, 2, 3:
		return int64(r.Intn(0x10000))
	case 4:
		return int64(0x10000 + r.Intn(0x20000))
	case 5:
		return int64(int32(r.Uint32()))
	default:
		return int64(r.Intn(0x110000))
	}
}

func c20RandomLang(r *vh.Rand, tags []string) []byte {
	alphabet := "abcdefghijklmnopqrstuvwxyzABCDEFGHIJKLMNOPQRSTUVWXYZ0123456789-_--__ .@*\x00\x7f"
	switch r.Intn(6) {
	case 0: // a known tag, possibly with a suffix / changed case / '_' separators
		t := []byte(tags[r.Intn(len(tags))])
		if r.Bool() {
			t = append(t, '-')
			for k := r.Range(0, 4); k > 0; k-- {
				t = append(t, alphabet[r.Intn(len(alphabet))])
			}
		}
		for i := range t {
			if r.Chance(20) && t[i] >= 'a' && t[i] <= 'z' {
				t[i] -= 32
			}
			if t[i] == '-' && r.Chance(30) {
				t[i] = '_'
			}
		}
		return t
	case 1: // a prefix or a one-byte change of a known tag
		t := []byte(tags[r.Intn(len(tags))])
		if len(t) > 0 {
			if r.Bool() {
				t = t[:r.Intn(len(t))]
			} else {
				t[r.Intn(len(t))] = alphabet[r.Intn(len(alphabet))]
			}
		}
		return t
	case 2: // raw bytes (invalid UTF-8, high bytes)
		return r.Bytes(r.Range(0, 12))
	case 3: // valid UTF-8 with non-ASCII runes, among them U+0080..U+00FF and the boundaries 0xFE, 0xFF, 0x100
		var s string
		for k := r.Range(1, 6); k > 0; k-- {
			switch r.Intn(5) {
			case 0:
				s += string(rune(0x80 + r.Intn(0x82)))
			case 1:
				s += string([]rune{0xfe, 0xff, 0x100, 0x7ff, 0x800, 0xffff, 0x10000, 0x10ffff, 0xfffd}[r.Intn(9)])
			case 2:
				s += string(rune(r.Intn(0x110000)))
			default:
				s += string(alphabet[r.Intn(len(alphabet))])
			}
		}
		return []byte(s)
	default:
		n := r.Range(0, 10)
		b := make([]byte, n)
		for i := range b {
			b[i] = alphabet[r.Intn(len(alphabet))]
		}
		return b
	}
}

func c20Gen(r *vh.Rand, tier string, n int, emit func(any)) {
	infos, _ := language.VerifC20LanguagesInfos()
	tags := make([]string, len(infos))
	for i, l := range infos {
		tags[i] = l.Lang
	}
	// the exhaustive Go-side pass (every tier): all code points through every lookup, the pair grid, every one-byte
	// edit of every tag; what it finds becomes ordinary cases, whose run repeats the comparison and reports it
	for _, x := range c20ScanAll(c20CheckCP) {
		emit(c20Input{K: "cp", R: x.a})
	}
	for _, x := range c20ScanPairs() {
		emit(c20Input{K: "pair", A: x.a, B: x.b})
	}
	rbase := make([]byte, 3) // a random base string
	for i := range rbase {
		rbase[i] = "abcxyzABZ019-_@ \x00\x7f"[r.Intn(22)]
	}
	for _, s := range c20ScanLangs([][]byte{rbase, []byte("EN\x00us"), {}, {0xc3, 0xa9}, r.Bytes(4)}) {
		emit(c20Input{K: "lang", S: s})
	}
	// every byte value inserted at every position of a few short bases, through the Coq model as well: a canonical
	// tag without and one with a subtag, a non-canonical spelling of the latter, the random base
	dashed := ""
	for _, t := range tags {
		if len(t) <= 5 && len(c20Primary(t)) < len(t) && (dashed == "" || len(t) < len(dashed)) {
			dashed = t
		}
	}
	lbases := [][]byte{[]byte("fr"), []byte(dashed), rbase}
	if vs := c20Variants(dashed); len(vs) > 1 {
		lbases = append(lbases, vs[1+r.Intn(len(vs)-1)])
	}
	for _, base := range lbases {
		for pos := 0; pos <= len(base); pos++ {
			for c := 0; c < 256; c++ {
				s := append(append(append([]byte{}, base[:pos]...), byte(c)), base[pos:]...)
				emit(c20Input{K: "lang", S: s})
			}
		}
	}
	// finite scopes: every Direction byte, every LangID (plus out-of-range ones), every tag of the table
	for d := 0; d < 256; d++ {
		emit(c20Input{K: "dir", D: d})
	}
	for id := 0; id < len(infos)+3; id++ {
		emit(c20Input{K: "id", ID: id})
	}
	emit(c20Input{K: "id", ID: 0xffff})
	for _, t := range tags {
		emit(c20Input{K: "lang", S: []byte(t)})
	}
	for _, i := range r.Perm(len(tags))[:40] { // spellings: upper case, capitalised, '_' and '@' separators, mixed
		for _, v := range c20Variants(tags[i])[1:] {
			emit(c20Input{K: "lang", S: v})
		}
	}
	for _, s := range []string{"fr\x00", "\x00fr", "f\x00r", "\x00", "\x00\x00", "en-\x00us", "fr@be", "FR_BE@x", "", "-", "--", "-x", "x-", "a", "zzzz", "fr-be", "ml-in-x", "ml_IN", "ks-deva", "und-zsye", "\xff", "\xc3\xbe", "\xc3\xbf", "\xc4\x80", "a\xe2\x82z", "EN\x00us"} {
		emit(c20Input{K: "lang", S: []byte(s)})
	}
	nl := n / 10
	if tier != "quick" {
		nl = n / 3
	}
	for i := 0; i < nl; i++ {
		emit(c20Input{K: "lang", S: c20RandomLang(r, tags)})
	}
	// the whole algorithmic Hangul scope, on every run: (L range +- 1) x (V range, 8 past its end, 1 before), and
	// LV / LVT / non-syllables x (T range +- 2)
	for _, p := range c20HangulPairs(tier) {
		emit(c20Input{K: "pair", A: p[0], B: p[1]})
	}
	// pairs
	pairs := c20Pairs()
	np := n / 6
	if tier != "quick" || np > len(pairs) {
		np = len(pairs)
	}
	for _, i := range r.Perm(len(pairs))[:np] {
		emit(c20Input{K: "pair", A: pairs[i][0], B: pairs[i][1]})
	}
	for i := 0; i < n/20; i++ {
		emit(c20Input{K: "pair", A: c20RandomCP(r), B: c20RandomCP(r)})
	}
	// code points: quick samples the boundary pool, thorough and search take all of it
	pool := c20Pool()
	npool := len(pool)
	if tier == "quick" && n < npool {
		npool = n
		for _, x := range pool[:64] { // corner values are always kept
			emit(c20Input{K: "cp", R: x})
		}
	}
	perm := r.Perm(len(pool))
	idx := append([]int(nil), perm[:npool]...)
	sort.Ints(idx)
	for _, i := range idx {
		emit(c20Input{K: "cp", R: pool[i]})
	}
	nr := n / 3
	for i := 0; i < nr; i++ {
		emit(c20Input{K: "cp", R: c20RandomCP(r)})
	}
	// Hangul syllables and jamo (algorithmic decomposition)
	for i := 0; i < n/10; i++ {
		emit(c20Input{K: "cp", R: ucd.HangulSBase + int64(r.Intn(ucd.HangulSCount))})
		li, vi, ti := int64(r.Intn(ucd.HangulLCount)), int64(r.Intn(ucd.HangulVCount)), int64(r.Intn(ucd.HangulTCount))
		emit(c20Input{K: "pair", A: ucd.HangulLBase + li, B: ucd.HangulVBase + vi})
		emit(c20Input{K: "pair", A: ucd.HangulSBase + (li*ucd.HangulVCount+vi)*ucd.HangulTCount, B: ucd.HangulTBase + ti})
		emit(c20Input{K: "pair", A: ucd.HangulSBase + int64(r.Intn(ucd.HangulSCount)), B: ucd.HangulTBase + ti})
	}
}

// ---- run ----

func c20ZB(x int64, ok bool) string     { return vh.Tuple(vh.Z(x), vh.Bool(ok)) }
func c20ZZB(a, b int64, ok bool) string { return vh.Tuple(vh.Z(a), vh.Z(b), vh.Bool(ok)) }
func c20Bytes(b []byte) string {
	xs := make([]int64, len(b))
	for i, c := range b {
		xs[i] = int64(c)
	}
	return vh.ZList(xs)
}
func c20Dval(d di.Direction) string {
	return vh.Tuple(vh.Zi(int(d)), vh.Tuple(vh.Bool(d.IsVertical()), vh.Bool(d.Progression() == di.TowardTopLeft),
		vh.Bool(d.HasVerticalOrientation()), vh.Bool(d.IsSideways())))
}

func c20Run(o *vh.Out, inAny any) {
	in := inAny.(c20Input)
	var term, key string
	class := in.K
	var panicked any
	sweepFail, goFail := "", ""
	func() {
		defer func() { panicked = recover() }()
		switch in.K {
		case "cp":
			ids := c20ClassIDs()
			r := rune(int32(in.R))
			gc := c20ID(ids.gc, ucd.LookupType(r))
			cc := int64(ucd.LookupCombiningClass(r))
			lb := c20ID(ids.lb, ucd.LookupLineBreakClass(r))
			gb := c20ID(ids.gb, ucd.LookupGraphemeBreakClass(r))
			wb := c20ID(ids.wb, ucd.LookupWordBreakClass(r))
			m, mok := ucd.LookupMirrorChar(r)
			m2, _ := ucd.LookupMirrorChar(m)
			a, b, dok := ucd.Decompose(r)
			c, cok := ucd.Compose(a, b)
			ha, hb, hok := ucd.VerifC20DecomposeHangul(r)
			sc := language.LookupScript(r)
			term = vh.App("CCp", vh.Z(int64(r)), vh.Z(gc), vh.Z(cc), vh.Z(lb), vh.Z(gb), vh.Z(wb), c20ZB(int64(m), mok), vh.Z(int64(m2)),
				c20ZZB(int64(a), int64(b), dok), c20ZB(int64(c), cok), c20ZZB(int64(ha), int64(hb), hok), vh.Z(int64(uint32(sc))),
				vh.Tuple(vh.Zi(int(ucd.LookupCombiningClass(a))), vh.Zi(int(ucd.LookupCombiningClass(b)))))
			if gc >= 0 {
				key = term
			}
			switch {
			case r < 0 || r > 0x10ffff:
				class = "cp:outside"
			case r < 0x10000:
				class = "cp:bmp"
			default:
				class = "cp:astral"
			}
			if dok {
				o.Count("cp:decomposable")
			}
			_, goFail = c20CheckCP(r)
			if mok {
				o.Count("cp:mirrored")
			}
		case "pair":
			a, b := rune(int32(in.A)), rune(int32(in.B))
			c, ok := ucd.Compose(a, b)
			hc, hok := ucd.VerifC20ComposeHangul(a, b)
			da, db, dok := ucd.Decompose(c)
			term = vh.App("CPair", vh.Z(int64(a)), vh.Z(int64(b)), c20ZB(int64(c), ok), c20ZB(int64(hc), hok), c20ZZB(int64(da), int64(db), dok))
			if ok {
				key = term
				class = "pair:composes"
			}
			_, goFail = c20CheckPair(a, b)
		case "dir":
			d := di.Direction(uint8(in.D))
			sw := d.SwitchAxis()
			sw2 := sw.SwitchAxis()
			sp0, sp1, ss0, ss1 := d, d, d, d
			sp0.SetProgression(di.FromTopLeft)
			sp1.SetProgression(di.TowardTopLeft)
			ss0.SetSideways(false)
			ss1.SetSideways(true)
			term = vh.App("CDir", c20Dval(d), vh.Bool(d.Axis() == di.Vertical), vh.Zi(int(d.Harfbuzz())), c20Dval(sw), c20Dval(sp0), c20Dval(sp1), c20Dval(ss0), c20Dval(ss1), c20Dval(sw2))
			key = term
		case "lang":
			l := language.NewLanguage(string(in.S))
			l2 := language.NewLanguage(string(l))
			prim := l.Primary()
			i1, ok1 := language.VerifC20BinarySearchLang(l, 0)
			i2, ok2 := language.VerifC20BinarySearchLang(l, 1)
			id, ok := language.NewLangID(l)
			tag := id.Language()
			id2, ok2b := language.NewLangID(tag)
			term = vh.App("CLang", c20Bytes(in.S), c20Bytes([]byte(l)), c20Bytes([]byte(l2)), c20Bytes([]byte(prim)),
				c20ZB(int64(i1), ok1), c20ZB(int64(i2), ok2), c20ZB(int64(id), ok), c20Bytes([]byte(tag)), c20ZB(int64(id2), ok2b))
			if len(l) > 0 {
				key = term
			}
			if ok {
				class = "lang:known"
			}
			_, goFail = c20CheckLang(in.S)
		case "id":
			id := language.LangID(uint16(in.ID))
			tag := id.Language()
			id2, ok2 := language.NewLangID(tag)
			term = vh.App("CId", vh.Zi(int(id)), c20Bytes([]byte(tag)), c20ZB(int64(id2), ok2))
			key = term
		case "sweep":
			term = "(CId (-1) [] (0, true))"
			key = fmt.Sprintf("sweep %d", in.Lo)
			if msg := c20Sweep(in.Lo, in.Hi); msg != "" {
				sweepFail = msg
			}
		default:
			panic("unknown case kind " + in.K)
		}
	}()
	if panicked != nil {
		// keep the shard well-formed: a case that trivially passes, the failure is reported from the Go side
		idx := o.Add(in, "(CId (-1) [] (0, true))", "", "panic")
		o.Fail(idx, "panic", fmt.Sprintf("%s: panic: %v", in.K, panicked))
		return
	}
	idx := o.Add(in, term, key, class)
	if sweepFail != "" {
		o.Fail(idx, "sweep", sweepFail)
	}
	if goFail != "" {
		o.Fail(idx, "oracle", goFail)
	}
}

// ---- the tables expanded by a plain linear walk (compared with the lookups on every code point: c20_full.go) ----

type c20Expected struct {
	gc, cc, lb, gb, wb []int16 // class id per code point, -1 none, -3 in two classes
	script             []uint32
}

var c20exp *c20Expected

func c20Expand(arr []*unicode.RangeTable, ids func(i int, t *unicode.RangeTable) int) []int16 {
	out := make([]int16, 0x110000)
	for i := range out {
		out[i] = -1
	}
	put := func(r uint32, id int) {
		if r >= 0x110000 {
			return
		}
		if out[r] != -1 && out[r] != int16(id) {
			out[r] = -3
		} else {
			out[r] = int16(id)
		}
	}
	for i, t := range arr {
		if t == nil {
			continue
		}
		id := ids(i, t)
		for _, rg := range t.R16 {
			for r := uint32(rg.Lo); r <= uint32(rg.Hi); r += uint32(rg.Stride) {
				put(r, id)
			}
		}
		for _, rg := range t.R32 {
			for r := rg.Lo; r <= rg.Hi; r += rg.Stride {
				put(r, id)
			}
		}
	}
	return out
}

func c20Expected_() *c20Expected {
	if c20exp != nil {
		return c20exp
	}
	ids := c20ClassIDs()
	pos := func(i int, _ *unicode.RangeTable) int { return i }
	e := &c20Expected{}
	e.gc = c20Expand(ucd.VerifC20Categories(), func(_ int, t *unicode.RangeTable) int { return ids.gc[t] })
	e.cc = c20Expand(ucd.VerifC20CombiningClasses(), pos)
	e.lb = c20Expand(ucd.VerifC20LineBreaks(), pos)
	gbs, _ := ucd.VerifC20GraphemeBreaks()
	e.gb = c20Expand(gbs, pos)
	wbs, _ := ucd.VerifC20WordBreaks()
	e.wb = c20Expand(wbs, pos)
	e.script = make([]uint32, 0x110000)
	for i := range e.script {
		e.script[i] = uint32(language.Unknown)
	}
	for i := len(language.ScriptRanges) - 1; i >= 0; i-- { // first match of a forward linear scan wins
		rg := language.ScriptRanges[i]
		for r := rg.Start; r <= rg.End && r < 0x110000; r++ {
			if r >= 0 {
				e.script[r] = uint32(rg.Script)
			}
		}
	}
	c20exp = e
	return e
}

// c20Sweep checks every code point of [lo, hi) (stored "sweep" inputs of earlier runs; the generator now scans all
// code points on every tier, see c20_full.go) and returns the first disagreement ("" if none).
func c20Sweep(lo, hi int64) string {
	for x := lo; x < hi && x < 0x110000; x++ {
		if _, msg := c20CheckCP(rune(x)); msg != "" {
			return msg
		}
	}
	return ""
}
