package main

import (
	"encoding/json"
	"fmt"
	"strings"

	hb "github.com/go-text/typesetting/harfbuzz"

	"verifharness/internal/vh"
)

// ---- c18engine: the real legacy kerning, GSUB single/ligature substitution and GPOS mark-to-base attachment,
// run through the real lookup loops on a real Buffer with synthetic tables, against Model/KernMachine.v,
// Model/GsubLig.v, Model/MarkBase.v; plus the cut statement of C18 on the implementation's own outputs. ----------

type e18Item struct {
	C int      `json:"c"`
	M uint32   `json:"m"`
	G int      `json:"g"`
	U uint16   `json:"u,omitempty"`
	Q uint16   `json:"q,omitempty"`
	L uint8    `json:"l,omitempty"`
	P [6]int32 `json:"p"` // xAdvance yAdvance xOffset yOffset attachChain attachType
}

type e18Mark struct {
	Flag    uint16      `json:"flag"`
	Mask    uint32      `json:"mask"`
	Classes int         `json:"classes"`
	Marks   [][4]int    `json:"marks"`
	Bases   []e18Base   `json:"bases"`
}
type e18Base struct {
	G int      `json:"g"`
	A [][3]int `json:"a"`
}
type e18Gsub struct {
	Flag    uint16     `json:"flag"`
	Mask    uint32     `json:"mask"`
	Lig     bool       `json:"lig"`
	Singles [][2]int   `json:"singles,omitempty"`
	Ligs    []e18Lig   `json:"ligs,omitempty"`
}
type e18Lig struct {
	Comps []int `json:"comps"`
	Lig   int   `json:"lig"`
}

type e18Input struct {
	Piece  string    `json:"piece"` // kern | mark | gsub
	Items  []e18Item `json:"items"`
	Rec    bool      `json:"rec"`
	Level  int       `json:"level"`
	Concat bool      `json:"concat"`
	Dir    int       `json:"dir"` // 4 LTR 5 RTL 6 TTB 7 BTT
	Pairs  [][3]int  `json:"pairs,omitempty"`
	Mask   uint32    `json:"mask,omitempty"`
	Marks  []e18Mark `json:"marks,omitempty"`
	Gsub   []e18Gsub `json:"gsub,omitempty"`
}

func init() {
	drivers["c18engine"] = &driver{
		header: "From TV Require Import Check.C18Engine.",
		shard:  60,
		n: func(tier string) int {
			if tier == "quick" {
				return 900
			}
			return 9000
		},
		decode: func(raw json.RawMessage) (any, error) {
			var in e18Input
			err := json.Unmarshal(raw, &in)
			return in, err
		},
		gen: e18Gen,
		run: e18Run,
	}
}

func e18ToVerif(in e18Input, items []e18Item) hb.VerifEngineBuf {
	out := hb.VerifEngineBuf{Level: hb.ClusterLevel(in.Level), HasGlyphFlags: in.Rec, Direction: hb.Direction(in.Dir)}
	if in.Concat {
		out.Flags = hb.ProduceUnsafeToConcat
	}
	for _, it := range items {
		out.Items = append(out.Items, hb.VerifItem{Cluster: it.C, Mask: it.M, Glyph: hb.GID(it.G), Unicode: it.U, GlyphProps: it.Q,
			LigProps: it.L, XAdvance: it.P[0], YAdvance: it.P[1], XOffset: it.P[2], YOffset: it.P[3],
			AttachChain: int16(it.P[4]), AttachType: uint8(it.P[5])})
	}
	return out
}

func e18FromVerif(b hb.VerifEngineBuf) []e18Item {
	out := make([]e18Item, len(b.Items))
	for i, it := range b.Items {
		out[i] = e18Item{C: it.Cluster, M: it.Mask, G: int(it.Glyph), U: it.Unicode, Q: it.GlyphProps, L: it.LigProps,
			P: [6]int32{it.XAdvance, it.YAdvance, it.XOffset, it.YOffset, int32(it.AttachChain), int32(it.AttachType)}}
	}
	return out
}

// runs the real piece on items
func e18Apply(in e18Input, items []e18Item) ([]e18Item, bool, string) {
	vb := e18ToVerif(in, items)
	var out hb.VerifEngineBuf
	var msg string
	switch in.Piece {
	case "kern":
		out, msg = hb.VerifFallbackKern(vb, in.Pairs, in.Mask)
	case "mark":
		ls := make([]hb.VerifMarkBase, len(in.Marks))
		for i, m := range in.Marks {
			l := hb.VerifMarkBase{Flag: m.Flag, Mask: m.Mask, Classes: m.Classes, Marks: m.Marks}
			for _, b := range m.Bases {
				l.Bases = append(l.Bases, hb.VerifBase{Glyph: b.G, Anchors: b.A})
			}
			ls[i] = l
		}
		out, msg = hb.VerifApplyMarkBase(vb, ls)
	case "gsub":
		ls := make([]hb.VerifGSUBLookup, len(in.Gsub))
		for i, g := range in.Gsub {
			l := hb.VerifGSUBLookup{Flag: g.Flag, Mask: g.Mask}
			if g.Lig {
				l.Ligs = []hb.VerifLigature{}
				for _, lg := range g.Ligs {
					l.Ligs = append(l.Ligs, hb.VerifLigature{Comps: lg.Comps, Lig: lg.Lig})
				}
			} else {
				l.Singles = g.Singles
			}
			ls[i] = l
		}
		out, msg = hb.VerifApplyGSUB(vb, ls)
	default:
		msg = "unknown piece " + in.Piece
	}
	return e18FromVerif(out), out.HasGlyphFlags, msg
}

func e18CoqItems(items []e18Item) string {
	e := make([]string, len(items))
	for i, it := range items {
		e[i] = vh.App("I", vh.Zi(it.C), vh.Zi(int(it.M&7)), vh.Zi(int(it.M>>3)), vh.Zi(it.G), vh.Zi(int(it.U)), vh.Zi(int(it.Q)),
			vh.Zi(int(it.L)), vh.Zi(int(it.P[0])), vh.Zi(int(it.P[1])), vh.Zi(int(it.P[2])), vh.Zi(int(it.P[3])), vh.Zi(int(it.P[4])), vh.Zi(int(it.P[5])))
	}
	return vh.List(e)
}

func e18CoqPiece(in e18Input) string {
	horiz := in.Dir == 4 || in.Dir == 5
	backward := in.Dir == 5 || in.Dir == 7
	switch in.Piece {
	case "kern":
		ps := make([]string, len(in.Pairs))
		for i, p := range in.Pairs {
			ps[i] = vh.Tuple(vh.Zi(p[0]), vh.Zi(p[1]), vh.Zi(p[2]))
		}
		return vh.App("EKern", vh.App("mkKP", vh.List(ps), vh.Zi(int(in.Mask>>3)), vh.Bool(horiz)), vh.Bool(in.Concat), vh.Bool(backward))
	case "mark":
		ls := make([]string, len(in.Marks))
		for i, m := range in.Marks {
			// the hook sorts by glyph (stable) and keeps the first entry of a glyph: the model's `find` does the same
			mk := make([]string, len(m.Marks))
			for j, x := range m.Marks {
				mk[j] = vh.Tuple(vh.Zi(x[0]), vh.Zi(x[1]), vh.Zi(x[2]), vh.Zi(x[3]))
			}
			bs := make([]string, len(m.Bases))
			for j, b := range m.Bases {
				as := make([]string, m.Classes)
				for c := 0; c < m.Classes; c++ {
					if c < len(b.A) && b.A[c][0] != 0 {
						as[c] = vh.Tuple("true", vh.Zi(b.A[c][1]), vh.Zi(b.A[c][2]))
					} else {
						as[c] = vh.Tuple("false", vh.Zi(0), vh.Zi(0))
					}
				}
				bs[j] = vh.Tuple(vh.Zi(b.G), vh.List(as))
			}
			ls[i] = vh.App("mkMB", vh.Zi(int(m.Flag)), vh.Zi(int(m.Mask>>3)), vh.List(mk), vh.List(bs))
		}
		return vh.App("EMark", vh.List(ls), vh.Bool(in.Concat))
	default:
		ls := make([]string, len(in.Gsub))
		for i, g := range in.Gsub {
			ss := make([]string, len(g.Singles))
			for j, s := range g.Singles {
				ss[j] = vh.Tuple(vh.Zi(s[0]), vh.Zi(s[1]))
			}
			lg := make([]string, len(g.Ligs))
			for j, l := range g.Ligs {
				lg[j] = vh.Tuple(vh.IntList(l.Comps), vh.Zi(l.Lig))
			}
			ls[i] = vh.App("mkGS", vh.Zi(int(g.Flag)), vh.Zi(int(g.Mask>>3)), vh.Bool(g.Lig), vh.List(ss), vh.List(lg))
		}
		return vh.App("EGsub", vh.List(ls))
	}
}

// the cluster value of the cut items[:k] | items[k:] when the two sides are separated by cluster value
func e18CutCluster(items []e18Item, k int) (int, bool) {
	minOf := func(xs []e18Item) int {
		m := xs[0].C
		for _, x := range xs {
			if x.C < m {
				m = x.C
			}
		}
		return m
	}
	l, r := items[:k], items[k:]
	a, b := minOf(r), minOf(l)
	ok := true
	for _, x := range l {
		if x.C >= a {
			ok = false
		}
	}
	if ok {
		return a, true
	}
	ok = true
	for _, y := range r {
		if y.C >= b {
			ok = false
		}
	}
	return b, ok
}

func e18Run(o *vh.Out, inAny any) {
	in := inAny.(e18Input)
	out, orec, msg := e18Apply(in, in.Items)
	panicked := msg != ""
	var cuts []string
	ncut := 0
	if !panicked {
		for k := 1; k < len(in.Items); k++ {
			c, ok := e18CutCluster(in.Items, k)
			if !ok {
				continue
			}
			// only the cuts whose cluster is present and unflagged in the whole output are of interest
			present, flagged := false, false
			for _, g := range out {
				if g.C == c {
					present = true
					if g.M&1 != 0 {
						flagged = true
					}
				}
			}
			if !present || flagged {
				continue
			}
			a, _, m1 := e18Apply(in, in.Items[:k])
			b, _, m2 := e18Apply(in, in.Items[k:])
			if m1 != "" || m2 != "" {
				panicked, msg = true, "piece: "+m1+m2
				break
			}
			cuts = append(cuts, vh.Tuple(fmt.Sprintf("%d%%nat", k), e18CoqItems(a), e18CoqItems(b)))
			ncut++
		}
	}
	coq := vh.App("mkEC", e18CoqPiece(in), e18CoqItems(in.Items), vh.Bool(in.Rec), e18CoqItems(out), vh.Bool(orec), vh.Bool(panicked), vh.List(cuts))
	changed := "same"
	if fmt.Sprint(out) != fmt.Sprint(in.Items) {
		changed = "changed"
	}
	key := ""
	if changed == "changed" || ncut > 0 {
		key = fmt.Sprintf("%s/%v/%v", in.Piece, in.Items, out)
	}
	classes := []string{in.Piece, in.Piece + "/" + changed}
	if ncut > 0 {
		classes = append(classes, in.Piece+"/cut")
	}
	if changed == "changed" {
		classes = append(classes, "nontrivial")
	}
	idx := o.Add(in, coq, key, classes...)
	if panicked {
		o.Fail(idx, "panic", msg)
	}
}

// ---- generators ----

const (
	upFormat    = 1
	upMn        = 12
	upLo        = 7
	upIgnorable = 32
	upHidden    = 64
	upCont      = 128
	upZwj       = 256
	upZwnj      = 512
)

// kinds of glyphs: letters 1..9, marks 20..23, default ignorables 30..33
func e18Glyph(r *vh.Rand, kind int) (g int, u, q uint16) {
	switch kind {
	case 0: // letter
		g = r.Range(1, 7)
		u = upLo
		switch r.Intn(4) {
		case 0:
			q = 2
		case 1:
			q = 4
		case 2:
			q = 2
		}
	case 1: // mark
		g = r.Range(20, 24)
		u = upMn | upCont | uint16(r.Range(0, 3))<<8
		q = 8
	default: // default ignorable
		switch r.Intn(5) {
		case 0:
			g, u = 30, upFormat|upIgnorable|upZwnj
		case 1:
			g, u = 31, upFormat|upIgnorable|upZwj
		case 2:
			g, u = 32, upFormat|upIgnorable
		case 3:
			g, u = 33, upMn|upIgnorable|upHidden // CGJ-like: hidden, not skipped
		default:
			g, u = 32, upFormat|upIgnorable
		}
	}
	return
}

func e18Items(r *vh.Rand, piece string, maxN int) ([]e18Item, bool) {
	n := r.Range(0, maxN)
	if r.Chance(85) && n < 2 {
		n = r.Range(2, maxN)
	}
	items := make([]e18Item, n)
	reverse := r.Chance(25)
	c := r.Range(0, 3)
	rec := false
	for i := range items {
		if i > 0 && r.Chance(70) {
			c += r.Range(1, 3)
		}
		kind := 0
		switch x := r.Intn(100); {
		case x < 55:
			kind = 0
		case x < 80:
			kind = 1
		default:
			kind = 2
		}
		g, u, q := e18Glyph(r, kind)
		m := uint32(8)
		switch r.Intn(10) {
		case 0:
			m = 0
		case 1:
			m = 16
		case 2:
			m = 24
		}
		if r.Chance(6) || (piece == "gsub" && r.Chance(12)) {
			m |= uint32(r.Range(1, 3)) // pre-set unsafe-to-break / unsafe-to-concat
			rec = true
		}
		it := e18Item{C: c, M: m, G: g, U: u, Q: q}
		if piece != "gsub" {
			if r.Chance(12) {
				it.Q |= 16
			}
			if r.Chance(15) {
				it.Q |= 64 // multiplied
				it.L = uint8(r.Range(1, 3))<<5 | uint8(r.Range(0, 4))
			} else if r.Chance(10) {
				it.L = uint8(r.Range(1, 3))<<5 | uint8(r.Range(0, 4))
			}
		}
		if piece != "gsub" { // GSUB runs before the positions exist: Pos is not kept in step with Info
			for j := 0; j < 4; j++ {
				if r.Chance(60) {
					it.P[j] = int32(r.Range(-300, 1200))
				}
			}
		}
		items[i] = it
	}
	if reverse {
		for i, j := 0, len(items)-1; i < j; i, j = i+1, j-1 {
			items[i], items[j] = items[j], items[i]
		}
	}
	return items, rec
}

// glyph ids of the items by kind (letters <= 10, marks 20..29, default ignorables >= 30)
func e18Gids(items []e18Item) (letters, marks, all []int) {
	for _, it := range items {
		all = append(all, it.G)
		if it.G <= 10 {
			letters = append(letters, it.G)
		} else if it.G < 30 {
			marks = append(marks, it.G)
		}
	}
	return
}

func e18Pick(r *vh.Rand, from []int, lo, hi int) int {
	if len(from) > 0 && r.Chance(75) {
		return from[r.Intn(len(from))]
	}
	return r.Range(lo, hi)
}

func e18Gen(r *vh.Rand, tier string, n int, emit func(any)) {
	maxN := 6
	if tier != "quick" {
		maxN = 8
	}
	for i := 0; i < n; i++ {
		var in e18Input
		switch i % 3 {
		case 0:
			in.Piece = "kern"
		case 1:
			in.Piece = "mark"
		default:
			in.Piece = "gsub"
		}
		in.Items, in.Rec = e18Items(r, in.Piece, maxN)
		letters, marks, _ := e18Gids(in.Items)
		in.Level = r.Intn(2)
		in.Dir = 4
		switch in.Piece {
		case "kern":
			in.Concat = r.Chance(15)
			in.Dir = []int{4, 4, 4, 5, 6, 7}[r.Intn(6)]
			in.Mask = []uint32{8, 8, 8, 16, 24}[r.Intn(5)]
			np := r.Range(1, 10)
			for j := 0; j < np; j++ {
				l, rt := e18Pick(r, letters, 1, 7), e18Pick(r, letters, 1, 7)
				if r.Chance(3) { // F61: a skippable glyph on the left of a pair
					l = []int{20, 21, 30, 31, 32}[r.Intn(5)]
				}
				if r.Chance(5) { // harmless: skippable glyph on the right (never looked up)
					rt = []int{20, 30, 33}[r.Intn(3)]
				}
				v := r.Range(-250, 250)
				if r.Chance(10) {
					v = 0
				}
				in.Pairs = append(in.Pairs, [3]int{l, rt, v})
			}
		case "mark":
			in.Concat = r.Chance(15)
			nl := r.Range(1, 3)
			for j := 0; j < nl; j++ {
				m := e18Mark{Classes: r.Range(1, 3), Mask: []uint32{8, 8, 8, 16, 24, 0}[r.Intn(6)], Flag: []uint16{0, 0, 0, 4, 2, 8}[r.Intn(6)]}
				nm := r.Range(1, 4)
				for k := 0; k < nm; k++ {
					m.Marks = append(m.Marks, [4]int{e18Pick(r, marks, 20, 24), r.Intn(m.Classes), r.Range(-200, 200), r.Range(-200, 600)})
				}
				nb := r.Range(1, 5)
				for k := 0; k < nb; k++ {
					b := e18Base{G: e18Pick(r, letters, 1, 7)}
					if r.Chance(8) {
						b.G = []int{30, 32, 33, 20}[r.Intn(4)]
					}
					for c := 0; c < m.Classes; c++ {
						if r.Chance(80) {
							b.A = append(b.A, [3]int{1, r.Range(0, 700), r.Range(-100, 900)})
						} else {
							b.A = append(b.A, [3]int{0, 0, 0})
						}
					}
					m.Bases = append(m.Bases, b)
				}
				in.Marks = append(in.Marks, m)
			}
		default:
			nl := r.Range(1, 4)
			for j := 0; j < nl; j++ {
				g := e18Gsub{Mask: []uint32{8, 8, 8, 16, 24, 0}[r.Intn(6)], Flag: []uint16{0, 0, 8, 8, 4, 2}[r.Intn(6)], Lig: r.Chance(65)}
				if g.Lig {
					g.Ligs = []e18Lig{}
					nn := r.Range(1, 5)
					for k := 0; k < nn; k++ {
						nc := r.Range(2, 4)
						if r.Chance(8) {
							nc = 1
						}
						l := e18Lig{Lig: r.Range(1, 10)}
						// mostly a run of consecutive letters of the input
						start := 0
						if len(letters) > 0 {
							start = r.Intn(len(letters))
						}
						for c := 0; c < nc; c++ {
							if start+c < len(letters) && r.Chance(85) {
								l.Comps = append(l.Comps, letters[start+c])
							} else {
								l.Comps = append(l.Comps, r.Range(1, 7))
							}
						}
						g.Ligs = append(g.Ligs, l)
					}
				} else {
					nn := r.Range(1, 4)
					for k := 0; k < nn; k++ {
						g.Singles = append(g.Singles, [2]int{e18Pick(r, letters, 1, 8), r.Range(1, 10)})
					}
				}
				in.Gsub = append(in.Gsub, g)
			}
		}
		emit(in)
	}
	_ = strings.Join
}
