package main

// Driver c02buf (C02): the storage bookkeeping of shaping.wrapBuffer (line storage of capacity 100, heap fallback of
// markCandidateBest, lineUsed, growth on reset), run through the hook shaping.VerifWrapBufferTrace and compared with
// coq/Model/WrapBuf.v; the oracle (coq/Check/C02buf.v) checks that no returned line is overwritten later.

import (
	"encoding/json"

	"github.com/go-text/typesetting/shaping"

	"verifharness/internal/vh"
)

type c02bufInput struct {
	Paras [][][]shaping.VerifBufOp `json:"paras"`
	Tag   string                   `json:"tag,omitempty"`
}

func init() {
	drivers["c02buf"] = &driver{
		header: "From Coq Require Import List ZArith.\nFrom TV Require Import Check.C02buf.\nImport ListNotations.\nOpen Scope Z_scope.",
		shard:  25,
		n: func(tier string) int {
			if tier == "quick" {
				return 150
			}
			return 2000
		},
		decode: func(raw json.RawMessage) (any, error) {
			var in c02bufInput
			err := json.Unmarshal(raw, &in)
			return in, err
		},
		gen: c02bufGen,
		run: c02bufRun,
	}
}

// c02bufLine: the operations wrapNextLine performs for a line of k whole-run pieces followed by a rejected candidate:
// checkpoint, markCandidateBest(piece) for the first, then for each further piece candidateAppend(previous) + mark.
func c02bufLine(next *int, k int, rejected bool) []shaping.VerifBufOp {
	var ops []shaping.VerifBufOp
	prev := -1
	for i := 0; i < k; i++ {
		ops = append(ops, shaping.VerifBufOp{Kind: 2})
		if prev >= 0 {
			ops = append(ops, shaping.VerifBufOp{Kind: 0, Tags: []int{prev}})
		}
		t := *next
		*next++
		ops = append(ops, shaping.VerifBufOp{Kind: 1, Tags: []int{t}})
		prev = t
	}
	if rejected {
		ops = append(ops, shaping.VerifBufOp{Kind: 2}, shaping.VerifBufOp{Kind: 0, Tags: []int{prev}}, shaping.VerifBufOp{Kind: 3})
	}
	return ops
}

func c02bufGen(r *vh.Rand, tier string, n int, emit func(any)) {
	// fixed: 40 lines of 3 pieces (the storage runs out inside line 34), then 20 lines of 7 on the grown storage, then 3 again
	for _, ks := range [][]int{{3, 7, 3}, {6, 6}, {7}, {1, 3}} {
		var in c02bufInput
		in.Tag = "fixed"
		next := 1
		for _, k := range ks {
			var para [][]shaping.VerifBufOp
			for pieces := 0; pieces < 125; pieces += k {
				para = append(para, c02bufLine(&next, k, true))
			}
			in.Paras = append(in.Paras, para)
		}
		emit(in)
	}
	for i := 0; i < n; i++ {
		var in c02bufInput
		next := 1
		for p := r.Range(1, 4); p > 0; p-- {
			var para [][]shaping.VerifBufOp
			target := r.Range(20, 260)
			style := r.Intn(3)
			for pieces := 0; pieces < target; {
				k := r.Range(1, 9)
				if style == 0 {
					para = append(para, c02bufLine(&next, k, r.Chance(70)))
					pieces += k
					continue
				}
				// arbitrary operations
				var ops []shaping.VerifBufOp
				for j := r.Range(0, 8); j > 0; j-- {
					switch x := r.Intn(10); {
					case x < 4:
						ops = append(ops, shaping.VerifBufOp{Kind: 0, Tags: []int{next}})
						next++
					case x < 7:
						var tags []int
						for s := r.Range(0, 3); s > 0; s-- {
							tags = append(tags, next)
							next++
						}
						ops = append(ops, shaping.VerifBufOp{Kind: 1, Tags: tags})
						pieces += 1 + len(tags)
					case x < 9:
						ops = append(ops, shaping.VerifBufOp{Kind: 2})
					default:
						ops = append(ops, shaping.VerifBufOp{Kind: 3})
					}
				}
				pieces++
				para = append(para, ops)
			}
			in.Paras = append(in.Paras, para)
		}
		emit(in)
	}
}

func c02bufRun(o *vh.Out, inAny any) {
	in := inAny.(c02bufInput)
	res := shaping.VerifWrapBufferTrace(in.Paras)
	ints := func(xs []int) string {
		zs := make([]int64, len(xs))
		for i, x := range xs {
			zs[i] = int64(x)
		}
		return vh.ZList(zs)
	}
	var paras []string
	var fails []string
	lines, exhausted := 0, false
	for pi, p := range res {
		var ls []string
		for li, l := range p.Lines {
			var ops []string
			for _, op := range in.Paras[pi][li] {
				switch op.Kind {
				case 0:
					ops = append(ops, vh.App("A", vh.Zi(op.Tags[0])))
				case 1:
					ops = append(ops, vh.App("M", ints(op.Tags)))
				case 2:
					ops = append(ops, "S_")
				default:
					ops = append(ops, "R_")
				}
			}
			ls = append(ls, vh.App("mkBL", vh.List(ops), vh.Bool(l.Nil), ints(l.Returned), vh.Bool(l.InLine), vh.Zi(l.Off),
				vh.Zi(l.LineUsed), vh.Bool(l.Exhausted), ints(l.Final)))
			lines++
			exhausted = exhausted || l.Exhausted
		}
		paras = append(paras, vh.App("mkBP", vh.Zi(p.Cap), vh.List(ls), vh.Bool(p.Panic != "")))
		if p.Panic != "" {
			fails = append(fails, "panic: "+p.Panic)
		}
	}
	coq := vh.App("mkCase", vh.List(paras))
	b, _ := json.Marshal(in)
	classes := []string{}
	if exhausted {
		classes = append(classes, "exhausted")
	}
	if len(res) > 1 {
		classes = append(classes, "reused")
	}
	if in.Tag != "" {
		classes = append(classes, "tag="+in.Tag)
	}
	key := ""
	if lines >= 2 {
		key = string(b)
	}
	idx := o.Add(in, coq, key, classes...)
	for _, f := range fails {
		o.Fail(idx, "panic", f)
	}
}
