package main

import (
	"bytes"
	"encoding/json"
	"fmt"
	"os"
	"path/filepath"

	"github.com/go-text/typesetting/di"
	"github.com/go-text/typesetting/font"
	"github.com/go-text/typesetting/harfbuzz"
	"github.com/go-text/typesetting/language"
	"github.com/go-text/typesetting/shaping"
	"golang.org/x/image/math/fixed"

	"verifharness/internal/vh"
)

// c12Glyph: Width Height XBearing YBearing XAdvance YAdvance XOffset YOffset ClusterIndex RuneCount GlyphCount
// startLetterSpacing endLetterSpacing
type c12Glyph [13]int

type c12Out struct {
	Adv    int        `json:"adv"`
	Glyphs []c12Glyph `json:"glyphs"`
	Bounds [3]int     `json:"bounds"` // GlyphBounds: Ascent Descent Gap
	Dir    int        `json:"dir"`
}

type c12Input struct {
	Kind string `json:"kind"` // "op", "spacing", "shape"
	// op: one method on one run
	Op   int    `json:"op,omitempty"`
	WF   bool   `json:"wf,omitempty"`
	Out  c12Out `json:"out,omitempty"`
	Text []int  `json:"text,omitempty"`
	S    int    `json:"s,omitempty"`
	F1   bool   `json:"f1,omitempty"`
	F2   bool   `json:"f2,omitempty"`
	PDir int    `json:"pdir,omitempty"`
	// spacing: AddSpacing on several runs
	Runs []c12Out `json:"runs,omitempty"`
	WS   int      `json:"ws,omitempty"`
	LS   int      `json:"ls,omitempty"`
	// shape: a real call of Shape; ShapeOp >= 0 then applies that method (with S, F1, F2, PDir) to the result
	Font     string `json:"font,omitempty"`
	Str      string `json:"str,omitempty"`
	Start    int    `json:"start,omitempty"`
	End      int    `json:"end,omitempty"`
	Size     int    `json:"size,omitempty"` // 26.6
	Dir      int    `json:"dir,omitempty"`
	ShapeOp  int    `json:"shape_op,omitempty"`
	HasShape bool   `json:"has_shape_op,omitempty"`
}

func init() {
	drivers["c12"] = &driver{
		header: "From TV Require Import Check.C12.",
		shard:  50,
		n: func(tier string) int {
			if tier == "quick" {
				return 800
			}
			return 12000
		},
		decode: func(raw json.RawMessage) (any, error) {
			var in c12Input
			err := json.Unmarshal(raw, &in)
			return in, err
		},
		gen: c12Gen,
		run: c12Run,
	}
}

var c12Dirs = []int{0, 1, 2, 3, 6, 7, 14, 15}

var c12Seps = []int{0x20, 0xA0, 0x1361, 0x10100, 0x10101, 0x1039F, 0x1091F}

func c12Spacing(r *vh.Rand) int {
	switch r.Intn(8) {
	case 0:
		return 0
	case 1:
		return r.Range(1, 9)*2 + 1 // odd
	case 2:
		return -(r.Range(0, 9)*2 + 1) // negative odd
	case 3:
		return -r.Range(1, 400)
	case 4:
		return 64 * r.Range(1, 20)
	default:
		return r.Range(-300, 1300)
	}
}

// c12GenOut builds a run as shaping would (wf) or with a broken annotation (!wf); it returns the text length it needs.
func c12GenOut(r *vh.Rand, wf bool, dir int, runeBase int) (c12Out, int) {
	out := c12Out{Dir: dir}
	vertical := dir&2 != 0
	nclusters := r.Range(0, 5)
	if r.Chance(10) {
		nclusters = r.Range(6, 12)
	}
	type cl struct{ glyphs, runes int }
	var cls []cl
	total := 0
	for i := 0; i < nclusters; i++ {
		c := cl{1, 1}
		if r.Chance(30) {
			c.glyphs = r.Range(2, 3)
		}
		if r.Chance(25) {
			c.runes = r.Range(2, 3)
		}
		cls = append(cls, c)
		total += c.runes
	}
	// cluster index = first rune of the cluster; visual order: increasing for FromTopLeft, decreasing otherwise
	starts := make([]int, len(cls))
	if dir&1 == 0 {
		p := runeBase
		for i, c := range cls {
			starts[i] = p
			p += c.runes
		}
	} else {
		p := runeBase + total
		for i, c := range cls {
			p -= c.runes
			starts[i] = p
		}
	}
	oriented := !r.Chance(12)
	sum := 0
	for i, c := range cls {
		for k := 0; k < c.glyphs; k++ {
			var g c12Glyph
			g[0] = r.Range(0, 1500)
			g[1] = -r.Range(0, 1500)
			if r.Chance(20) {
				g[0], g[1] = 0, 0 // white space
			}
			if !oriented && r.Chance(50) {
				g[0], g[1] = -g[0], -g[1]
			}
			g[2], g[3] = r.Range(-300, 300), r.Range(-400, 1500)
			adv := r.Range(0, 1400)
			if r.Chance(10) {
				adv = -r.Range(0, 200)
			}
			if vertical {
				g[5] = -adv
			} else {
				g[4] = adv
			}
			if !wf && r.Chance(30) { // cross-axis advance
				if vertical {
					g[4] = r.Range(-50, 50)
				} else {
					g[5] = r.Range(-50, 50)
				}
			}
			if r.Chance(40) {
				g[6], g[7] = r.Range(-200, 200), r.Range(-200, 200)
			}
			g[8], g[9], g[10] = starts[i], c.runes, c.glyphs
			if r.Chance(25) {
				g[11], g[12] = r.Range(-40, 200), r.Range(-40, 200)
			}
			if vertical {
				sum += g[5]
			} else {
				sum += g[4]
			}
			out.Glyphs = append(out.Glyphs, g)
		}
	}
	out.Adv = sum
	out.Bounds = [3]int{r.Range(0, 1500), -r.Range(0, 600), 0}
	if !wf && len(out.Glyphs) > 0 {
		switch r.Intn(4) {
		case 0: // GlyphCount too large somewhere
			out.Glyphs[r.Intn(len(out.Glyphs))][10] += r.Range(1, 4)
		case 1: // GlyphCount <= 0 on the first glyph only (later ones would loop forever in AddLetterSpacing)
			out.Glyphs[0][10] = -r.Range(0, 2)
		case 2: // cluster index outside the text
			out.Glyphs[r.Intn(len(out.Glyphs))][8] = runeBase + total + r.Range(0, 3)
		default:
			out.Adv += r.Range(-500, 500)
		}
	}
	return out, total
}

func c12GenText(r *vh.Rand, n int) []int {
	text := make([]int, n)
	for i := range text {
		switch r.Intn(5) {
		case 0, 1:
			text[i] = c12Seps[r.Intn(len(c12Seps))]
		case 2:
			text[i] = []int{0x2000, 0x3000, 0x09, 0x1360, 0x10102}[r.Intn(5)] // near misses
		default:
			text[i] = r.Range(0x41, 0x7a)
		}
	}
	return text
}

var c12Fonts = []string{"Roboto-Regular.ttf", "Amiri-Regular.ttf", "UbuntuMono-R.ttf", "Selawik-VF-Subset.ttf"}

var c12Texts = []struct {
	font int // preferred font, -1 any
	s    string
}{
	{-1, "Hello world ! : the end"},
	{0, "Hello final office affluent"},
	{-1, "a b  c d_"},
	{0, "éà x̂̃y"},
	{1, "تثذرزسشص لمنهويء"},
	{1, "مَرْحَبًا بِكَ"},
	{1, "abc تثذ 123"},
	{-1, "\U0001039FHello፡world ! : the end"},
	{2, "if (a != b) { return; }"},
	{-1, "x"},
	{-1, " "},
	{-1, "A\tB\nC"},
	{3, "Selawik variable"},
}

var c12Sizes = []int{64, 65, 100, 127, 640, 16 * 64, 16*64 + 37, 72 * 64, 72*64 + 1, 999*64 + 63, 1000 * 64, 4095*64 + 13, 4096 * 64}

func c12Gen(r *vh.Rand, tier string, n int, emit func(any)) {
	// real shaping sweep: fonts x texts x directions (incl. sideways) x sizes
	shapes := 160
	if tier != "quick" {
		shapes = 2500
	}
	for i := 0; i < shapes; i++ {
		t := c12Texts[i%len(c12Texts)]
		f := t.font
		if f < 0 || r.Chance(20) {
			f = r.Intn(len(c12Fonts))
		}
		runes := []rune(t.s)
		in := c12Input{Kind: "shape", Font: c12Fonts[f], Str: t.s, Start: 0, End: len(runes), Dir: c12Dirs[r.Intn(len(c12Dirs))],
			Size: c12Sizes[r.Intn(len(c12Sizes))]}
		if r.Chance(25) {
			in.Size = r.Range(64, 4096*64)
		}
		if r.Chance(20) && len(runes) > 1 {
			in.Start = r.Range(0, len(runes)-1)
			in.End = r.Range(in.Start+1, len(runes))
		}
		if r.Chance(60) {
			in.HasShape = true
			in.ShapeOp = []int{4, 5, 5, 6, 3, 2, 1}[r.Intn(7)]
			in.S, in.F1, in.F2 = c12Spacing(r), r.Bool(), r.Bool()
			in.PDir = in.Dir
			if r.Chance(30) {
				in.PDir = c12Dirs[r.Intn(len(c12Dirs))]
			}
		}
		emit(in)
	}
	// synthetic runs through the methods
	for i := 0; i < n; i++ {
		wf := !r.Chance(15)
		dir := c12Dirs[r.Intn(len(c12Dirs))]
		if r.Chance(15) { // AddSpacing over several runs
			k := r.Range(0, 4)
			in := c12Input{Kind: "spacing", WF: wf, WS: c12Spacing(r), LS: c12Spacing(r)}
			base := 0
			for j := 0; j < k; j++ {
				o, cnt := c12GenOut(r, wf, dir, base)
				base += cnt
				in.Runs = append(in.Runs, o)
			}
			in.Text = c12GenText(r, base)
			emit(in)
			continue
		}
		in := c12Input{Kind: "op", WF: wf, Op: []int{0, 1, 2, 3, 4, 4, 5, 5, 5, 6}[r.Intn(10)], S: c12Spacing(r), F1: r.Bool(), F2: r.Bool()}
		if in.Op == 3 {
			dir &= 1 // sideways starts from a horizontal run
		}
		base := r.Range(0, 3)
		o, cnt := c12GenOut(r, wf, dir, base)
		in.Out = o
		in.Text = c12GenText(r, base+cnt)
		in.PDir = dir
		if r.Chance(30) {
			in.PDir = c12Dirs[r.Intn(len(c12Dirs))]
		}
		emit(in)
	}
}

func c12ToOutput(o c12Out) shaping.Output {
	out := shaping.Output{Advance: fixed.Int26_6(o.Adv), Direction: di.Direction(o.Dir),
		GlyphBounds: shaping.Bounds{Ascent: fixed.Int26_6(o.Bounds[0]), Descent: fixed.Int26_6(o.Bounds[1]), Gap: fixed.Int26_6(o.Bounds[2])}}
	for _, g := range o.Glyphs {
		gl := shaping.Glyph{Width: fixed.Int26_6(g[0]), Height: fixed.Int26_6(g[1]), XBearing: fixed.Int26_6(g[2]), YBearing: fixed.Int26_6(g[3]),
			XAdvance: fixed.Int26_6(g[4]), YAdvance: fixed.Int26_6(g[5]), XOffset: fixed.Int26_6(g[6]), YOffset: fixed.Int26_6(g[7]),
			ClusterIndex: g[8], RuneCount: g[9], GlyphCount: g[10]}
		gl.VerifSetLetterSpacing(fixed.Int26_6(g[11]), fixed.Int26_6(g[12]))
		out.Glyphs = append(out.Glyphs, gl)
	}
	return out
}

func c12Bounds(b shaping.Bounds) string {
	return vh.App("mkBounds", vh.Z(int64(b.Ascent)), vh.Z(int64(b.Descent)), vh.Z(int64(b.Gap)))
}

func c12Coq(o *shaping.Output) string {
	gs := make([]string, len(o.Glyphs))
	for i, g := range o.Glyphs {
		sl, el := g.VerifLetterSpacing()
		gs[i] = vh.App("mkGlyph", vh.Z(int64(g.Width)), vh.Z(int64(g.Height)), vh.Z(int64(g.XBearing)), vh.Z(int64(g.YBearing)),
			vh.Z(int64(g.XAdvance)), vh.Z(int64(g.YAdvance)), vh.Z(int64(g.XOffset)), vh.Z(int64(g.YOffset)),
			vh.Zi(g.ClusterIndex), vh.Zi(g.RuneCount), vh.Zi(g.GlyphCount), vh.Z(int64(sl)), vh.Z(int64(el)))
	}
	return vh.App("mkOut", vh.Z(int64(o.Advance)), vh.List(gs), c12Bounds(o.GlyphBounds), vh.Z(int64(o.Direction)))
}

func c12Runes(text []int) []rune {
	rs := make([]rune, len(text))
	for i, x := range text {
		rs[i] = rune(x)
	}
	return rs
}

// c12Apply runs method op on out; returns the value of advanceSpaceAware for op 2.
func c12Apply(op int, out *shaping.Output, text []rune, s int, f1, f2 bool, pdir int) (ret int64, panicked any) {
	defer func() { panicked = recover() }()
	switch op {
	case 0:
		out.RecomputeAdvance()
	case 1:
		out.RecalculateAll()
	case 2:
		ret = int64(out.VerifAdvanceSpaceAware(di.Direction(pdir)))
	case 3:
		out.VerifSideways()
		out.RecalculateAll()
	case 4:
		out.AddWordSpacing(text, fixed.Int26_6(s))
	case 5:
		out.AddLetterSpacing(fixed.Int26_6(s), f1, f2)
	case 6:
		out.VerifTrimStartLetterSpacing()
	}
	return ret, nil
}

func c12OpCase(o *vh.Out, in c12Input, op int, wf bool, out shaping.Output, textInts []int, classes ...string) {
	if op == 3 {
		out.RecalculateAll() // sideways expects an up-to-date horizontal run
	}
	before := c12Coq(&out)
	text := c12Runes(textInts)
	ret, panicked := c12Apply(op, &out, text, in.S, in.F1, in.F2, in.PDir)
	status := 0
	if panicked != nil {
		status = 1
	}
	tl := make([]int64, len(textInts))
	for i, x := range textInts {
		tl[i] = int64(x)
	}
	coq := vh.App("COp", vh.Zi(op), vh.Bool(wf), before, vh.ZList(tl), vh.Zi(in.S), vh.Bool(in.F1), vh.Bool(in.F2), vh.Zi(in.PDir),
		vh.Zi(status), c12Coq(&out), vh.Z(ret))
	key := ""
	if len(out.Glyphs) > 0 {
		key = coq
	}
	classes = append(classes, fmt.Sprintf("op=%d", op), fmt.Sprintf("wf=%v", wf), fmt.Sprintf("status=%d", status),
		fmt.Sprintf("dir=%d", int(out.Direction)), fmt.Sprintf("glyphs=%d", bucket(len(out.Glyphs))))
	if op == 4 || op == 5 {
		sign := "zero"
		if in.S > 0 {
			sign = "pos"
		} else if in.S < 0 {
			sign = "neg"
		}
		if in.S%2 != 0 {
			sign += "-odd"
		}
		classes = append(classes, "spacing="+sign)
	}
	o.Add(in, coq, key, classes...)
}

var c12FaceCache = map[string]*font.Face{}

func c12Face(name string) (*font.Face, error) {
	if f, ok := c12FaceCache[name]; ok {
		return f, nil
	}
	var data []byte
	var err error
	for _, dir := range []string{"font/testdata", filepath.Join(os.Getenv("VERIF_REPO"), "font/testdata"), "/repo/font/testdata"} {
		data, err = os.ReadFile(filepath.Join(dir, name))
		if err == nil {
			break
		}
	}
	if err != nil {
		return nil, err
	}
	face, err := font.ParseTTF(bytes.NewReader(data))
	if err != nil {
		return nil, err
	}
	c12FaceCache[name] = face
	return face, nil
}

var c12Shaper shaping.HarfbuzzShaper

func c12Shape(face *font.Face, runes []rune, start, end int, dir di.Direction, size fixed.Int26_6) shaping.Output {
	script := language.Latin
	if start < len(runes) {
		script = language.LookupScript(runes[start])
		for _, r := range runes[start:end] { // first rune with a real script
			if s := language.LookupScript(r); s != language.Common && s != language.Inherited && s != language.Unknown {
				script = s
				break
			}
		}
	}
	return c12Shaper.Shape(shaping.Input{Text: runes, RunStart: start, RunEnd: end, Direction: dir, Face: face, Size: size,
		Script: script, Language: language.NewLanguage("en")})
}

func c12Run(o *vh.Out, inAny any) {
	in := inAny.(c12Input)
	switch in.Kind {
	case "op":
		c12OpCase(o, in, in.Op, in.WF, c12ToOutput(in.Out), in.Text, "synthetic")
	case "spacing":
		runs := make([]shaping.Output, len(in.Runs))
		before := make([]string, len(in.Runs))
		for i, r := range in.Runs {
			runs[i] = c12ToOutput(r)
			before[i] = c12Coq(&runs[i])
		}
		var panicked any
		func() {
			defer func() { panicked = recover() }()
			shaping.AddSpacing(runs, c12Runes(in.Text), fixed.Int26_6(in.WS), fixed.Int26_6(in.LS))
		}()
		status := 0
		if panicked != nil {
			status = 1
		}
		after := make([]string, len(runs))
		for i := range runs {
			after[i] = c12Coq(&runs[i])
		}
		tl := make([]int64, len(in.Text))
		for i, x := range in.Text {
			tl[i] = int64(x)
		}
		coq := vh.App("CSpacing", vh.Bool(in.WF), vh.List(before), vh.ZList(tl), vh.Zi(in.WS), vh.Zi(in.LS), vh.Zi(status), vh.List(after))
		key := ""
		if len(runs) > 0 {
			key = coq
		}
		o.Add(in, coq, key, "AddSpacing", fmt.Sprintf("AddSpacing runs=%d", len(runs)), fmt.Sprintf("AddSpacing status=%d", status))
	case "shape":
		face, err := c12Face(in.Font)
		if err != nil {
			idx := o.Add(in, "(CShape (mkOut 0 [] (mkBounds 0 0 0) 0) (mkBounds 0 0 0) (mkBounds 0 0 0) None)", "", "shape font missing")
			o.Fail(idx, "setup", err.Error())
			return
		}
		runes := []rune(in.Str)
		dir := di.Direction(in.Dir)
		size := fixed.Int26_6(in.Size)
		var out shaping.Output
		var panicked any
		func() {
			defer func() { panicked = recover() }()
			out = c12Shape(face, runes, in.Start, in.End, dir, size)
		}()
		if panicked != nil {
			idx := o.Add(in, "(CShape (mkOut 0 [] (mkBounds 0 0 0) 0) (mkBounds 0 0 0) (mkBounds 0 0 0) None)", "", "shape panic")
			o.Fail(idx, "panic", fmt.Sprint(panicked))
			return
		}
		if in.HasShape {
			text := make([]int, len(runes))
			for i, r := range runes {
				text[i] = int(r)
			}
			op := in.ShapeOp
			if op == 3 && out.Direction.IsVertical() {
				op = 5
			}
			c12OpCase(o, in, op, true, out, text, "real", "font="+in.Font)
			return
		}
		// the font's extents at the scale Shape uses, read through a fresh harfbuzz font
		hf := harfbuzz.NewFont(face)
		hf.XScale = int32(size.Ceil()) << shaping.VerifScaleShift
		hf.YScale = hf.XScale
		ext := hf.ExtentsForDirection(out.Direction.Harfbuzz())
		ref := shaping.Bounds{Ascent: fixed.I(int(ext.Ascender)) >> shaping.VerifScaleShift,
			Descent: fixed.I(int(ext.Descender)) >> shaping.VerifScaleShift, Gap: fixed.I(int(ext.LineGap)) >> shaping.VerifScaleShift}
		horiz := "None"
		if dir.IsSideways() {
			h := c12Shape(face, runes, in.Start, in.End, di.Direction(in.Dir&1), size)
			horiz = vh.Some(c12Coq(&h))
		}
		coq := vh.App("CShape", c12Coq(&out), c12Bounds(out.LineBounds), c12Bounds(ref), horiz)
		key := ""
		if len(out.Glyphs) > 0 {
			key = coq
		}
		o.Add(in, coq, key, "real", "Shape", "font="+in.Font, fmt.Sprintf("Shape dir=%d", in.Dir), fmt.Sprintf("Shape glyphs=%d", bucket(len(out.Glyphs))),
			fmt.Sprintf("Shape sideways=%v", dir.IsSideways()))
	}
}
