package main

import (
	"encoding/json"
	"fmt"
	"os"
	"sort"
	"strings"
	"sync"

	"github.com/go-text/typesetting/font"
	"github.com/go-text/typesetting/fontscan"

	"verifharness/internal/vh"
)

// C15 — style matching follows CSS Fonts 5.2.
//
// Driver "c15": explicit cases (font set, candidates, one request) with every observable, evaluated in Coq
// (model = correspondence, Spec/Css.v = oracle).  It also contains the exhaustive sweep of the property's
// grid: the real retainsBestMatches against a Go transliteration of Spec/Css.v, used as a SEARCH heuristic
// only — every disagreement is forwarded to Coq as an explicit case (and reported), agreement proves nothing.
//
// Driver "c15g": dense cases, one candidate set x the whole request grid, results packed; evaluated in Coq.

// c15Aspect is an aspect in the units of the Coq model: weight and stretch multiplied by 8.
type c15Aspect struct {
	Style uint8 `json:"style"`
	W8    int64 `json:"w8"`
	S8    int64 `json:"s8"`
}

func (a c15Aspect) aspect() font.Aspect {
	return font.Aspect{Style: font.Style(a.Style), Weight: font.Weight(float32(a.W8) / 8), Stretch: font.Stretch(float32(a.S8) / 8)}
}

// toZ8 converts a float32 result back to the model's unit; ok is false when it is not a multiple of 1/8.
func toZ8(v float32) (int64, bool) {
	x := float64(v) * 8
	i := int64(x)
	return i, float64(i) == x
}

type c15Sweep struct {
	MaxSize int `json:"max_size"` // all candidate subsets of the grid up to this size
	Part    int `json:"part"`     // this input covers first elements i with i % Parts == Part
	Parts   int `json:"parts"`
}

type c15Input struct {
	FS    []c15Aspect `json:"fs,omitempty"`
	Cands []int       `json:"cands,omitempty"`
	Query c15Aspect   `json:"query"`
	Sweep *c15Sweep   `json:"sweep,omitempty"`
}

var (
	c15Stretches = []int64{4, 5, 6, 7, 8, 9, 10, 12, 16} // 0.5 .. 2.0
	c15Weights   = func() []int64 {
		ws := []int64{1 * 8} // CSS lower limit
		for w := int64(100); w <= 900; w += 50 {
			ws = append(ws, w*8)
		}
		return append(ws, 950*8, 1000*8) // 950, CSS upper limit
	}()
	c15Grid    []c15Aspect // 9 stretches x 2 styles x 20 weights
	c15Queries []c15Aspect // the same grid plus unset (zero) fields
)

func init() {
	for _, s := range c15Stretches {
		for st := uint8(1); st <= 2; st++ {
			for _, w := range c15Weights {
				c15Grid = append(c15Grid, c15Aspect{st, w, s})
			}
		}
	}
	for _, s := range append([]int64{0}, c15Stretches...) {
		for st := uint8(0); st <= 2; st++ {
			for _, w := range append([]int64{0}, c15Weights...) {
				c15Queries = append(c15Queries, c15Aspect{st, w, s})
			}
		}
	}
	drivers["c15"] = &driver{
		header: "From TV Require Import Check.C15.",
		shard:  250,
		n: func(tier string) int {
			if tier == "quick" {
				return 6000
			}
			return 60000
		},
		decode: func(raw json.RawMessage) (any, error) {
			var in c15Input
			err := json.Unmarshal(raw, &in)
			return in, err
		},
		gen: c15Gen,
		run: c15Run,
	}
}

// ---- Go transliteration of Spec/Css.v (search heuristic for the sweep, not an oracle) ----------------

type c15Opt struct {
	v  int64
	ok bool
}

func c15Or(a, b c15Opt) c15Opt {
	if a.ok {
		return a
	}
	return b
}

// extremum of {x in vals | lo < x < hi} (exclusive bounds; use c15Inf), max or min
const c15Inf = int64(1) << 60

func c15Ext(vals []int64, lo, hi int64, max bool) c15Opt {
	var out c15Opt
	for _, x := range vals {
		if lo < x && x < hi {
			if !out.ok || (max && x > out.v) || (!max && x < out.v) {
				out = c15Opt{x, true}
			}
		}
	}
	return out
}

func c15Mem(vals []int64, q int64) bool {
	for _, x := range vals {
		if x == q {
			return true
		}
	}
	return false
}

func c15RefStretch(S []int64, q int64) c15Opt {
	if c15Mem(S, q) {
		return c15Opt{q, true}
	}
	narrower, wider := c15Ext(S, -c15Inf, q, true), c15Ext(S, q, c15Inf, false)
	if q <= 8 {
		return c15Or(narrower, wider)
	}
	return c15Or(wider, narrower)
}

func c15RefStyle(T []int64, q int64) c15Opt {
	var pref []int64
	switch q {
	case 1:
		pref = []int64{1, 2, 2}
	case 2:
		pref = []int64{2, 2, 1}
	}
	for _, t := range pref {
		if c15Mem(T, t) {
			return c15Opt{t, true}
		}
	}
	return c15Opt{}
}

func c15RefWeight(W []int64, q int64) c15Opt {
	if c15Mem(W, q) {
		return c15Opt{q, true}
	}
	switch {
	case 3200 <= q && q <= 4000:
		return c15Or(c15Ext(W, q, 4001, false), c15Or(c15Ext(W, -c15Inf, q, true), c15Ext(W, 4000, c15Inf, false)))
	case q < 3200:
		return c15Or(c15Ext(W, -c15Inf, q, true), c15Ext(W, q, c15Inf, false))
	default:
		return c15Or(c15Ext(W, q, c15Inf, false), c15Ext(W, -c15Inf, q, true))
	}
}

// c15RefNarrow writes the expected survivors into out (reusing its storage); vals is scratch.
func c15RefNarrow(fs []c15Aspect, cands []int, q c15Aspect, out []int, vals []int64) []int {
	if q.Style == 0 {
		q.Style = 1
	}
	if q.S8 == 0 {
		q.S8 = 8
	}
	if q.W8 == 0 {
		q.W8 = 3200
	}
	out = append(out[:0], cands...)
	for step := 0; step < 3; step++ {
		vals = vals[:0]
		get := func(a c15Aspect) int64 {
			switch step {
			case 0:
				return a.S8
			case 1:
				return int64(a.Style)
			}
			return a.W8
		}
		for _, i := range out {
			vals = append(vals, get(fs[i]))
		}
		var ch c15Opt
		switch step {
		case 0:
			ch = c15RefStretch(vals, q.S8)
		case 1:
			ch = c15RefStyle(vals, int64(q.Style))
		default:
			ch = c15RefWeight(vals, q.W8)
		}
		n := 0
		if ch.ok {
			for _, i := range out {
				if get(fs[i]) == ch.v {
					out[n] = i
					n++
				}
			}
		}
		out = out[:n]
	}
	return out
}

// ---- generation ----------------------------------------------------------------------------------

func c15Pick(r *vh.Rand, xs []int64) int64 { return xs[r.Intn(len(xs))] }

func c15Gen(r *vh.Rand, tier string, n int, emit func(any)) {
	// 1. the sweep of the property's grid (size <= 2 in quick and search, size <= 3 in thorough)
	maxSize, parts := 2, 1
	if tier == "thorough" {
		maxSize, parts = 3, 8
	}
	if os.Getenv("C15_NOSWEEP") == "" { // development aid: measure what the Coq-evaluated cases catch alone
		for p := 0; p < parts; p++ {
			emit(c15Input{Sweep: &c15Sweep{MaxSize: maxSize, Part: p, Parts: parts}})
		}
	}
	// 1b. the witnesses of coq/Findings/Match.v, replayed on the implementation (correspondence decides)
	emit(c15Input{FS: []c15Aspect{{3, 3200, 8}}, Cands: []int{0}, Query: c15Aspect{}})         // F20: crible[3]
	emit(c15Input{FS: []c15Aspect{{1, 3200, 8}}, Cands: []int{0}, Query: c15Aspect{Style: 3}}) // "should not happen"
	emit(c15Input{FS: []c15Aspect{{0, 3200, 8}}, Cands: []int{0}, Query: c15Aspect{}})         // empty result
	emit(c15Input{FS: []c15Aspect{{1, 3200, -8}}, Cands: []int{0}, Query: c15Aspect{S8: 8}})   // unset marker
	// 2. boundary requests on small sets around 400 / 500 / 1.0 (every pair of a small value list)
	bw := []int64{300 * 8, 400 * 8, 450 * 8, 500 * 8, 600 * 8}
	for _, q := range []int64{0, 300 * 8, 350 * 8, 400 * 8, 450 * 8, 500 * 8, 550 * 8, 3199, 3201, 3999, 4001} {
		for i := range bw {
			for j := range bw {
				emit(c15Input{FS: []c15Aspect{{1, bw[i], 8}, {1, bw[j], 8}}, Cands: []int{0, 1}, Query: c15Aspect{1, q, 8}})
			}
		}
	}
	bs := []int64{6, 7, 8, 9, 10}
	for _, q := range []int64{0, 7, 8, 9} {
		for i := range bs {
			for j := range bs {
				emit(c15Input{FS: []c15Aspect{{2, 3200, bs[i]}, {1, 3200, bs[j]}}, Cands: []int{1, 0}, Query: c15Aspect{0, 0, q}})
			}
		}
	}
	// 3. random structured cases
	for i := 0; i < n; i++ {
		emit(c15Random(r))
	}
}

func c15Random(r *vh.Rand) c15Input {
	// palettes make candidates share values, so that the style and weight steps see several survivors
	ns, nw := r.Range(1, 3), r.Range(1, 4)
	var ps, pw []int64
	for i := 0; i < ns; i++ {
		ps = append(ps, c15Pick(r, c15Stretches))
	}
	for i := 0; i < nw; i++ {
		pw = append(pw, c15Pick(r, c15Weights))
	}
	offGrid := r.Chance(10)
	if offGrid {
		for i := range ps {
			ps[i] = int64(r.Range(1, 24))
		}
		for i := range pw {
			pw[i] = int64(r.Range(3100, 4100))
			if r.Chance(30) {
				pw[i] = int64(r.Range(1, 9000))
			}
		}
	}
	nfs := r.Range(1, 6)
	if r.Chance(10) {
		nfs = r.Range(7, 30)
	}
	malformed := r.Chance(5)
	fs := make([]c15Aspect, nfs)
	for i := range fs {
		fs[i] = c15Aspect{uint8(r.Range(1, 2)), c15Pick(r, pw), c15Pick(r, ps)}
		if malformed && r.Chance(30) {
			switch r.Intn(5) {
			case 0:
				fs[i].Style = 0
			case 1:
				fs[i].Style = uint8(r.Range(3, 255))
			case 2:
				fs[i].W8 = 0
			case 3:
				fs[i].S8 = 0
			default:
				fs[i].S8, fs[i].W8 = -int64(r.Range(1, 16)), -int64(r.Range(1, 8000))
			}
		}
	}
	// candidates: a random sub-permutation, sometimes with repeats, rarely out of range or empty
	perm := r.Perm(nfs)
	k := r.Range(1, nfs)
	cands := append([]int(nil), perm[:k]...)
	if r.Chance(10) {
		for j := 0; j < r.Range(1, 3); j++ {
			cands = append(cands, cands[r.Intn(len(cands))])
		}
	}
	if r.Chance(2) {
		cands = cands[:0]
	}
	if malformed && r.Chance(20) {
		bad := nfs + r.Intn(2)
		if r.Bool() {
			bad = -1
		}
		pos := r.Intn(len(cands) + 1)
		cands = append(cands[:pos], append([]int{bad}, cands[pos:]...)...)
	}
	// request: grid or unset; near a candidate value; boundary; rarely an invalid style
	q := c15Aspect{uint8(r.Range(0, 2)), c15Pick(r, c15Weights), c15Pick(r, c15Stretches)}
	if r.Chance(15) {
		q.W8 = 0
	}
	if r.Chance(15) {
		q.S8 = 0
	}
	if r.Chance(30) {
		q.W8 = c15Pick(r, []int64{3200, 3600, 4000, 2800, 4400})
	}
	if r.Chance(25) {
		q.S8 = c15Pick(r, []int64{7, 8, 9})
	}
	if offGrid || r.Chance(10) {
		q.W8 = c15Pick(r, pw) + int64(r.Range(-2, 2))
		if r.Chance(40) {
			q.W8 = c15Pick(r, []int64{3199, 3200, 3201, 3999, 4000, 4001})
		}
		if r.Chance(50) {
			q.S8 = c15Pick(r, ps) + int64(r.Range(-1, 1))
		}
	}
	if malformed && r.Chance(10) {
		q.Style = uint8(r.Range(3, 255))
	}
	return c15Input{FS: fs, Cands: cands, Query: q}
}

// ---- running -------------------------------------------------------------------------------------

// c15Call runs f and classifies a panic: 0 returned, 1 index out of range, 2 "should not happen", 3 other.
func c15Call(f func()) (status int64, msg string) {
	defer func() {
		if p := recover(); p != nil {
			msg = fmt.Sprint(p)
			switch {
			case strings.Contains(msg, "index out of range"):
				status = 1
			case strings.Contains(msg, "should not happen"):
				status = 2
			default:
				status = 3
			}
		}
	}()
	f()
	return 0, ""
}

func c15Tuple(a c15Aspect) string {
	return vh.Tuple(vh.Z(int64(a.Style)), vh.Z(a.W8), vh.Z(a.S8))
}

func c15Aspects(fs []c15Aspect) []font.Aspect {
	out := make([]font.Aspect, len(fs))
	for i, a := range fs {
		out[i] = a.aspect()
	}
	return out
}

func c15Run(o *vh.Out, inAny any) {
	in := inAny.(c15Input)
	if in.Sweep != nil {
		c15RunSweep(o, *in.Sweep)
		return
	}
	c15RunOne(o, in, "")
}

func c15RunOne(o *vh.Out, in c15Input, note string) int {
	fs := fontscan.VerifNewFontSet(c15Aspects(in.FS))
	q := in.Query.aspect()
	inexact := false
	z8 := func(v float32) int64 {
		i, ok := toZ8(v)
		if !ok {
			inexact = true
		}
		return i
	}

	def := q
	def.SetDefaults()
	defT := vh.Tuple(vh.Z(int64(def.Style)), vh.Z(z8(float32(def.Weight))), vh.Z(z8(float32(def.Stretch))))

	cands := append(make([]int, 0, len(in.Cands)), in.Cands...) // len == cap, as the callers in fontmap.go build it
	var res []int
	st, _ := c15Call(func() { res = fs.RetainsBestMatches(cands, q) })
	if st != 0 {
		res = nil
	}
	var ms, mw float32
	var mt uint8
	fresh := func() []int { return append([]int(nil), in.Cands...) }
	sms, _ := c15Call(func() { ms = float32(fs.MatchStretch(fresh(), q.Stretch)) })
	smt, _ := c15Call(func() { mt = uint8(fs.MatchStyle(fresh(), q.Style)) })
	smw, _ := c15Call(func() { mw = float32(fs.MatchWeight(fresh(), q.Weight)) })
	obs := func(s int64, v int64) string {
		if s != 0 {
			v = 0
		}
		return vh.Tuple(vh.Z(s), vh.Z(v))
	}
	after := cands
	if st != 0 {
		after = nil
	}
	fsT := make([]string, len(in.FS))
	for i, a := range in.FS {
		fsT[i] = c15Tuple(a)
	}
	coq := vh.App("mkCase", vh.List(fsT), vh.IntList(in.Cands), c15Tuple(in.Query), defT,
		vh.Tuple(vh.Z(st), vh.IntList(res)), vh.IntList(after),
		obs(sms, z8(ms)), obs(smt, int64(mt)), obs(smw, z8(mw)))

	// non-trivial: at least two candidates that differ in some field
	key := ""
	distinct := false
	for _, c := range in.Cands {
		if c >= 0 && c < len(in.FS) && in.Cands[0] >= 0 && in.Cands[0] < len(in.FS) && in.FS[c] != in.FS[in.Cands[0]] {
			distinct = true
		}
	}
	if distinct {
		key = coq
	}
	regime := "w>500"
	switch w := int64(def.Weight * 8); {
	case w < 3200:
		regime = "w<400"
	case w <= 4000:
		regime = "w400..500"
	}
	if def.Stretch <= 1 {
		regime += ",s<=1"
	} else {
		regime += ",s>1"
	}
	classes := []string{fmt.Sprintf("ncands=%d", bucket(len(in.Cands))), "regime=" + regime, fmt.Sprintf("nres=%d", bucket(len(res))), fmt.Sprintf("status=%d", st)}
	if in.Query.Style == 0 || in.Query.W8 == 0 || in.Query.S8 == 0 {
		classes = append(classes, "query_has_unset_field")
	}
	if note != "" {
		classes = append(classes, note)
	}
	idx := o.Add(in, coq, key, classes...)
	if inexact {
		o.Fail(idx, "harness", "a float32 result is not a multiple of 1/8: outside the model's number representation")
	}
	if st == 3 || sms == 3 || smt == 3 || smw == 3 {
		o.Fail(idx, "panic", "unclassified panic")
	}
	return idx
}

// c15RunSweep: exhaustive grid, real code against the Go transliteration of the specification.
func c15RunSweep(o *vh.Out, sw c15Sweep) {
	aspects := c15Aspects(c15Grid)
	fs := fontscan.VerifNewFontSet(aspects)
	queries := c15Aspects(c15Queries)
	type bad struct {
		cands []int
		q     int
	}
	var (
		mu      sync.Mutex
		bads    []bad
		samples []bad
		total   int64
		wg      sync.WaitGroup
	)
	// every stride-th pair of the sweep is also sent to Coq as an explicit case (stratified sample)
	stride := int64(13649)
	if sw.MaxSize >= 3 {
		stride = 122849
	}
	N := len(c15Grid)
	workers := 4
	first := make(chan int, N)
	for i := 0; i < N; i++ {
		if sw.Parts <= 1 || i%sw.Parts == sw.Part {
			first <- i
		}
	}
	close(first)
	for w := 0; w < workers; w++ {
		wg.Add(1)
		go func() {
			defer wg.Done()
			buf := make([]int, 0, 4)
			exp := make([]int, 0, 4)
			vals := make([]int64, 0, 4)
			var local, cnt int64 // cnt restarts with every first element, so that the sample does not depend on scheduling
			var localBad, localSample []bad
			check := func(cands []int) {
				for qi := range queries {
					buf = append(buf[:0], cands...)
					var got []int
					st, _ := c15Call(func() { got = fs.RetainsBestMatches(buf, queries[qi]) })
					exp = c15RefNarrow(c15Grid, cands, c15Queries[qi], exp, vals)
					local++
					cnt++
					same := st == 0 && len(got) == len(exp)
					if same {
						for k := range got {
							if got[k] != exp[k] {
								same = false
							}
						}
					}
					if !same && len(localBad) < 50 {
						localBad = append(localBad, bad{append([]int(nil), cands...), qi})
					}
					if (cnt+int64(cands[0])*7919)%stride == 0 {
						localSample = append(localSample, bad{append([]int(nil), cands...), qi})
					}
				}
			}
			for i := range first {
				cnt = 0
				check([]int{i})
				check([]int{i, i}) // the same face twice: both must survive
				if sw.MaxSize >= 2 {
					for j := i + 1; j < N; j++ {
						check([]int{i, j})
						if sw.MaxSize >= 3 {
							for k := j + 1; k < N; k++ {
								check([]int{i, j, k})
							}
						}
					}
				}
			}
			mu.Lock()
			total += local
			bads = append(bads, localBad...)
			samples = append(samples, localSample...)
			mu.Unlock()
		}()
	}
	wg.Wait()
	o.Count(fmt.Sprintf("sweep: subsets<=%d part %d/%d: %d (subset,request) pairs run on the implementation", sw.MaxSize, sw.Part, sw.Parts, total))
	// explicit, minimal case of a swept pair: the distinct faces of the subset are the font set
	explicit := func(b bad) c15Input {
		var sub []c15Aspect
		var idx []int
		pos := map[int]int{}
		for _, c := range b.cands {
			if _, ok := pos[c]; !ok {
				pos[c] = len(sub)
				sub = append(sub, c15Grid[c])
			}
			idx = append(idx, pos[c])
		}
		return c15Input{FS: sub, Cands: idx, Query: c15Queries[b.q]}
	}
	sort.Slice(samples, func(a, b int) bool { return fmt.Sprint(samples[a]) < fmt.Sprint(samples[b]) }) // goroutine order independent
	for _, b := range samples {
		c15RunOne(o, explicit(b), "sweep_sample")
	}
	// forward disagreements to Coq
	sort.Slice(bads, func(a, b int) bool { return fmt.Sprint(bads[a]) < fmt.Sprint(bads[b]) })
	limit := 20
	for n, b := range bads {
		if n >= limit {
			break
		}
		in := explicit(b)
		i := c15RunOne(o, in, "forwarded_by_sweep")
		o.Fail(i, "sweep", "retainsBestMatches differs from the Go transliteration of Spec/Css.v on this grid case (Coq kind 2 decides whether the implementation is wrong)")
	}
}
