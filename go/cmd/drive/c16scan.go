package main

import (
	"crypto/sha256"
	"encoding/binary"
	"encoding/json"
	"fmt"
	"io/fs"
	"os"
	"path/filepath"
	"regexp"
	"sort"
	"strings"
	"time"

	fscan "github.com/go-text/typesetting/fontscan"

	"verifharness/internal/vh"
)

// ---------------------------------------------------------------------------------------------
// c16scan: histories of file operations on REAL directory trees (in a scratch directory from
// os.MkdirTemp, removed afterwards), a refresh through the cache file after each step, compared with
// a scan from scratch and with the scan model on the abstracted tree.

type c16ScanOp struct {
	Op      string `json:"op"`             // write | touch | remove | rename | mkdir | symlink | none
	Path    string `json:"path,omitempty"` // relative to the scratch root
	Path2   string `json:"path2,omitempty"`
	Content int    `json:"content,omitempty"` // index in the content table
	MTime   int64  `json:"mtime,omitempty"`   // unix seconds; 0 = leave what the OS sets
	Refresh bool   `json:"refresh"`
}
type c16ScanInput struct {
	Dirs []string    `json:"dirs"` // scanned directories, relative to the scratch root
	Ops  []c16ScanOp `json:"ops"`
}

func init() {
	drivers["c16scan"] = &driver{
		header: "From TV Require Import Check.C16Scan.",
		shard:  20,
		n: func(tier string) int {
			if tier == "quick" {
				return 30
			}
			return 400
		},
		decode: func(raw json.RawMessage) (any, error) {
			var in c16ScanInput
			err := json.Unmarshal(raw, &in)
			return in, err
		},
		gen: c16ScanGen,
		run: c16ScanRun,
	}
}

// ---- content table -----------------------------------------------------------------------------

var c16Contents [][]byte

func c16LoadContents() {
	if c16Contents != nil {
		return
	}
	var fonts []string
	// tiny real fonts of the typesetting-utils module (module cache), version taken from ./go.mod
	if gomod, err := os.ReadFile("go.mod"); err == nil {
		if m := regexp.MustCompile(`github.com/go-text/typesetting-utils\s+(\S+)`).FindSubmatch(gomod); m != nil {
			cache := os.Getenv("GOMODCACHE")
			if cache == "" {
				gp := os.Getenv("GOPATH")
				if gp == "" {
					home, _ := os.UserHomeDir()
					gp = filepath.Join(home, "go")
				}
				cache = filepath.Join(filepath.SplitList(gp)[0], "pkg", "mod")
			}
			base := filepath.Join(cache, "github.com", "go-text", "typesetting-utils@"+string(m[1]))
			for _, rel := range []string{"harfbuzz/fonts/adwaita.ttf", "harfbuzz/fonts/cv01.otf", "harfbuzz/fonts/aat-morx.ttf",
				"harfbuzz/fonts/AdobeBlank2.ttf", "harfbuzz/fonts/TestGVAREight.ttf", "opentype/toys/3cmaps.ttc",
				"harfbuzz/harfbuzz_reference/in-house/fonts/TTC.ttc"} {
				fonts = append(fonts, filepath.Join(base, filepath.FromSlash(rel)))
			}
		}
	}
	for _, p := range fonts {
		if b, err := os.ReadFile(p); err == nil && len(b) < 400000 {
			c16Contents = append(c16Contents, b)
		}
	}
	if len(c16Contents) < 3 { // fall back to the fonts of the repository
		ms, _ := filepath.Glob("font/testdata/*.ttf")
		sort.Strings(ms)
		for _, p := range ms {
			if b, err := os.ReadFile(p); err == nil {
				c16Contents = append(c16Contents, b)
			}
		}
	}
	if len(c16Contents) == 0 {
		panic("c16scan: no font file found (module cache and font/testdata)")
	}
	first := c16Contents[0]
	c16Contents = append(c16Contents, []byte("not a font\n"), []byte{}, first[:len(first)/2], append([]byte("junk"), first...))
}

var c16Names = []string{"a.ttf", "b.otf", "c.ttc", "notes.txt", ".hidden.ttf", "x.afm", "y.pcf.gz", "z.pfb", "fonts.dir",
	"e.enc.gz", "UP.TTF", "noext", "w.pfm", "s.scale", "l.alias", "p.pcf", "afm", "a.ttf.bak"}
var c16Subdirs = []string{"r1", "r1/sub", "r1/sub/deep", "r2", "r1/zz"}

func c16ScanGen(r *vh.Rand, tier string, n int, emit func(any)) {
	c16LoadContents()
	nc := len(c16Contents)
	for i := 0; i < n; i++ {
		in := c16ScanInput{Dirs: []string{"r1", "r2"}}
		switch r.Intn(6) {
		case 0:
			in.Dirs = []string{"r1", "r1/sub"} // overlapping: the visited set
		case 1:
			in.Dirs = []string{"r2", "r1", "r2", "missing"}
		case 2:
			in.Dirs = []string{"r1"}
		}
		steps := r.Range(6, 12)
		if tier == "thorough" {
			steps = r.Range(6, 24)
		}
		var live []string // paths believed to exist (files and links)
		pick := func() string {
			if len(live) == 0 || r.Chance(25) {
				name := c16Names[r.Intn(len(c16Names))]
				if r.Chance(50) { // names that are not filtered out
					name = []string{"a.ttf", "b.otf", "c.ttc", "UP.TTF", "noext", "notes.txt"}[r.Intn(6)]
				}
				return c16Subdirs[r.Intn(len(c16Subdirs))] + "/" + name
			}
			return live[r.Intn(len(live))]
		}
		clock := int64(1700000000)
		mtime := func() int64 {
			switch r.Intn(5) {
			case 0:
				return clock // same second as the previous event
			case 1:
				clock -= int64(r.Range(1, 1000)) // back in time
			default:
				clock += int64(r.Range(1, 100000))
			}
			return clock
		}
		for s := 0; s < steps; s++ {
			op := c16ScanOp{Refresh: !r.Chance(12) && s >= 2}
			switch c := r.Intn(20); {
			case c < 7 || len(live) == 0 || s < 3: // add or replace (the first three steps populate the tree)
				op.Op, op.Path, op.Content, op.MTime = "write", pick(), r.Intn(nc), mtime()
				live = append(live, op.Path)
			case c < 9: // replace keeping the modification time (dishonest: only the correspondence applies)
				op.Op, op.Path, op.Content, op.MTime = "write", live[r.Intn(len(live))], r.Intn(nc), -1
			case c < 12:
				op.Op, op.Path, op.MTime = "touch", live[r.Intn(len(live))], mtime()
			case c < 15:
				k := r.Intn(len(live))
				op.Op, op.Path = "remove", live[k]
				live = append(live[:k], live[k+1:]...)
			case c < 17:
				k := r.Intn(len(live))
				op.Op, op.Path, op.Path2 = "rename", live[k], pick()
				live[k] = op.Path2
			case c < 18:
				op.Op, op.Path = "mkdir", c16Subdirs[r.Intn(len(c16Subdirs))]+"/d"+fmt.Sprint(r.Intn(3))
			case c < 19: // link to a file, a directory or nothing
				op.Op, op.Path2 = "symlink", c16Subdirs[r.Intn(len(c16Subdirs))]+"/link"+fmt.Sprint(r.Intn(3))+".ttf"
				switch r.Intn(4) {
				case 0:
					op.Path = "r1/sub"
				case 1:
					op.Path = "nowhere/x.ttf"
				default:
					op.Path = live[r.Intn(len(live))]
				}
				live = append(live, op.Path2)
			default:
				op.Op = "none"
			}
			in.Ops = append(in.Ops, op)
		}
		in.Ops[len(in.Ops)-1].Refresh = true
		emit(in)
	}
}

// ---- run -----------------------------------------------------------------------------------------

type c16Walked struct {
	path   string
	isDir  bool
	statOK bool
	name   string
	mt     int64
	cid    int64
}

func c16Walk(dirs []string) []c16Walked {
	var out []c16Walked
	for _, dir := range dirs {
		filepath.WalkDir(dir, func(path string, d fs.DirEntry, err error) error {
			if err != nil {
				return filepath.SkipDir
			}
			w := c16Walked{path: path, isDir: d.IsDir()}
			if info, err := os.Stat(path); err == nil {
				w.statOK, w.name, w.mt = true, info.Name(), info.ModTime().UnixNano()
				if info.IsDir() {
					w.cid = 1
				} else if b, err := os.ReadFile(path); err == nil {
					h := sha256.Sum256(b)
					w.cid = int64(binary.BigEndian.Uint64(h[:8]) >> 16)
				}
			}
			out = append(out, w)
			return nil
		})
	}
	return out
}

func c16WalkTerm(ws []c16Walked) string {
	es := make([]string, len(ws))
	for i, w := range ws {
		es[i] = vh.App("mkW", vh.BytesLit([]byte(w.path)), vh.Bool(w.isDir), vh.Bool(w.statOK), vh.BytesLit([]byte(w.name)), vh.Z(w.mt), vh.Z(w.cid))
	}
	return vh.List(es)
}

func c16ScanRun(o *vh.Out, inAny any) {
	in := inAny.(c16ScanInput)
	c16LoadContents()
	root, err := os.MkdirTemp("", "c16-")
	if err != nil {
		panic(err)
	}
	defer os.RemoveAll(root)
	if strings.HasPrefix(root, "/repo") || strings.HasPrefix(root, "/verif") {
		panic("scratch directory inside /repo or /verif: " + root)
	}
	tree := filepath.Join(root, "t")
	cachePath := filepath.Join(root, "cache", "font_index.cache")
	for _, d := range []string{"r1", "r2"} {
		os.MkdirAll(filepath.Join(tree, d), 0o755)
	}
	abs := func(rel string) string { return filepath.Join(tree, filepath.FromSlash(rel)) }
	dirs := make([]string, len(in.Dirs))
	for i, d := range in.Dirs {
		dirs[i] = abs(d)
	}
	fpIDs := map[string]int64{}
	fpID := func(fp fscan.VerifIndexFootprint) int64 {
		b, _ := json.Marshal(fp)
		id, ok := fpIDs[string(b)]
		if !ok {
			id = int64(len(fpIDs) + 1)
			fpIDs[string(b)] = id
		}
		return id
	}
	entries := func(ix fscan.VerifIndex) string {
		es := make([]string, len(ix))
		for i, f := range ix {
			ids := make([]int64, len(f.Footprints))
			for j, fp := range f.Footprints {
				ids[j] = fpID(fp)
			}
			es[i] = vh.App("mkEntry", vh.BytesLit([]byte(f.Path)), vh.Z(f.ModTime), vh.ZList(ids))
		}
		return vh.List(es)
	}
	var last []c16Walked
	clean := true // the cache equals a scratch scan of `last`
	for step, op := range in.Ops {
		p := abs(op.Path)
		switch op.Op {
		case "write":
			mt := time.Unix(op.MTime, 0)
			if op.MTime == -1 { // keep the current modification time if the file exists
				if info, err := os.Stat(p); err == nil {
					mt = info.ModTime()
				} else {
					mt = time.Unix(1700000000, 0)
				}
			}
			os.MkdirAll(filepath.Dir(p), 0o755)
			if info, err := os.Lstat(p); err == nil && info.IsDir() {
				break
			}
			if os.WriteFile(p, c16Contents[op.Content%len(c16Contents)], 0o644) == nil {
				os.Chtimes(p, mt, mt)
			}
		case "touch":
			os.Chtimes(p, time.Unix(op.MTime, 0), time.Unix(op.MTime, 0))
		case "remove":
			os.Remove(p)
		case "rename":
			os.MkdirAll(filepath.Dir(abs(op.Path2)), 0o755)
			os.Rename(p, abs(op.Path2))
		case "mkdir":
			os.MkdirAll(p, 0o755)
		case "symlink":
			os.MkdirAll(filepath.Dir(abs(op.Path2)), 0o755)
			os.Symlink(p, abs(op.Path2))
		}
		if !op.Refresh {
			continue
		}
		// the abstract tree, and the parse function on it (one-file scans)
		walk := c16Walk(dirs)
		var parse []string
		seen := map[string]bool{}
		for _, w := range walk {
			key := fmt.Sprint(w.cid, " ", w.path)
			if w.isDir || !w.statOK || seen[key] {
				continue
			}
			seen[key] = true
			one, err := fscan.VerifScan(nil, w.path)
			var ids []int64
			if err == nil && len(one) == 1 {
				for _, fp := range one[0].Footprints {
					ids = append(ids, fpID(fp))
				}
			}
			parse = append(parse, vh.Tuple(vh.Z(w.cid), vh.BytesLit([]byte(w.path)), vh.ZList(ids)))
		}
		prev, err := fscan.VerifDeserializeFromPath(cachePath)
		if err != nil {
			prev = nil
		}
		var (
			inc, scr       fscan.VerifIndex
			incErr, scrErr error
			panicked       any
		)
		func() {
			defer func() { panicked = recover() }()
			inc, incErr = fscan.VerifRefresh(cachePath, dirs...)
			scr, scrErr = fscan.VerifScan(nil, dirs...)
		}()
		st := func(e error) int64 {
			if e != nil {
				return 1
			}
			return 0
		}
		coq := vh.App("mkCase", vh.List(parse), c16WalkTerm(last), vh.Bool(clean), entries(prev), c16WalkTerm(walk),
			vh.Z(st(incErr)), entries(inc), vh.Z(st(scrErr)), entries(scr))
		// replaying any step replays the history up to it
		sub := c16ScanInput{Dirs: in.Dirs, Ops: in.Ops[:step+1]}
		key := fmt.Sprintf("%v|%v|%s", in.Dirs, sub.Ops, strings.ReplaceAll(coq, root, ""))
		idx := o.Add(sub, coq, key, "op="+op.Op, fmt.Sprintf("files=%d", bucket(len(walk))),
			fmt.Sprintf("inc_status=%d", st(incErr)), fmt.Sprintf("reused=%v", len(prev) > 0))
		if panicked != nil {
			o.Fail(idx, "panic", fmt.Sprint("scan: ", panicked))
			return
		}
		if incErr == nil {
			last = walk
			clean = scrErr == nil && c16Index(inc) == c16Index(scr)
			if !clean {
				o.Count("stale_cache_after_dishonest_step")
			}
			// the cache file now holds exactly the refreshed index
			back, err := fscan.VerifDeserializeFromPath(cachePath)
			if err != nil || c16Index(back) != c16Index(inc) {
				o.Fail(idx, "cache", fmt.Sprint("the cache file written by the refresh does not read back as the refreshed index: ", err))
			}
			nfp := 0
			for _, f := range inc {
				nfp += len(f.Footprints)
			}
			if nfp > 0 {
				o.Count("with_fonts")
			}
		}
	}
}
