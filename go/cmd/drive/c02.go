package main

// Driver for the line wrapper (shaping/wrapping.go), shared by C02, C03 and C04: the three model
// names c02, c03, c04 generate and run exactly the same cases and differ only in the Check file
// (i.e. the oracle) that evaluates them.

import (
	"bytes"
	"encoding/json"
	"fmt"
	"unsafe"

	td "github.com/go-text/typesetting-utils/opentype"
	"github.com/go-text/typesetting/di"
	"github.com/go-text/typesetting/font"
	"github.com/go-text/typesetting/language"
	"github.com/go-text/typesetting/segmenter"
	"github.com/go-text/typesetting/shaping"
	"golang.org/x/image/math/fixed"

	"verifharness/internal/vh"
)

// glyph fields on the axis of the owning run
type c02Glyph struct {
	C   int   `json:"c"`
	RC  int   `json:"rc"`
	GC  int   `json:"gc"`
	Adv int32 `json:"a"`
	Ext int32 `json:"e"`
	Off int32 `json:"o,omitempty"`
	SLS int32 `json:"s,omitempty"`
	ELS int32 `json:"l,omitempty"`
}
type c02Run struct {
	Dir    uint8      `json:"dir"`
	Off    int        `json:"off"`
	Cnt    int        `json:"cnt"`
	Adv    int32      `json:"adv"`
	Glyphs []c02Glyph `json:"g"`
}
type c02Call struct {
	Dir    uint8 `json:"dir"`
	Trunc  int   `json:"trunc,omitempty"`
	Cont   bool  `json:"cont,omitempty"`
	Policy uint8 `json:"policy,omitempty"`
	NoTrim bool  `json:"notrim,omitempty"`
	Mode   int   `json:"mode,omitempty"` // 0 WrapParagraph, 1 Prepare + WrapNextLine
	Widths []int `json:"w"`
	Reset  bool  `json:"reset,omitempty"` // restore the input glyphs before the call
}
// c02Pre: another paragraph wrapped first with the SAME LineWrapper (results discarded): whatever the wrapper keeps
// between paragraphs (rune -> glyph mapping cache, break iterators, storage) must not show in the calls under test.
// The model starts from the zero wrapper (wrap_history_independent), the implementation from the used one.
type c02Pre struct {
	Text   []rune   `json:"text"`
	Runs   []c02Run `json:"runs"`
	Width  int      `json:"w"`
	Policy uint8    `json:"policy,omitempty"`
	Mode   int      `json:"mode,omitempty"`
	// SameIter: the prelude and every call hand the wrapper ONE RunIterator object whose content is replaced
	SameIter bool `json:"same_iter,omitempty"`
}
type c02Input struct {
	Pre       *c02Pre   `json:"pre,omitempty"`
	Text      []rune    `json:"text"`
	Runs      []c02Run  `json:"runs"`
	Truncator c02Run    `json:"truncator"`
	Calls     []c02Call `json:"calls"`
	Tag       string    `json:"tag,omitempty"`
}

func c02Register(name, header string) {
	drivers[name] = &driver{
		header: header,
		shard:  40,
		n: func(tier string) int {
			if tier == "quick" {
				return 500
			}
			return 6000
		},
		decode: func(raw json.RawMessage) (any, error) {
			var in c02Input
			err := json.Unmarshal(raw, &in)
			return in, err
		},
		gen: c02Gen,
		run: c02Run_,
	}
}

func init() {
	c02Register("c02", "From TV Require Import Check.C02.")
	c02Register("c03", "From TV Require Import Check.C03.")
	c02Register("c04", "From TV Require Import Check.C04.")
}

// ---- building shaped runs -----------------------------------------------------------------------

const c02Other = 7 // sentinel stored in the fields of the other axis; must never change

func c02Vertical(dir uint8) bool { return dir&2 != 0 }
func c02RTL(dir uint8) bool      { return dir&1 != 0 }

func c02ToOutput(r c02Run) shaping.Output {
	o := shaping.Output{Advance: fixed.Int26_6(r.Adv), Direction: di.Direction(r.Dir), Runes: shaping.Range{Offset: r.Off, Count: r.Cnt}}
	o.Glyphs = make([]shaping.Glyph, len(r.Glyphs))
	for i, g := range r.Glyphs {
		gl := shaping.Glyph{ClusterIndex: g.C, RuneCount: g.RC, GlyphCount: g.GC}
		if c02Vertical(r.Dir) {
			gl.YAdvance, gl.Height, gl.YOffset = fixed.Int26_6(g.Adv), fixed.Int26_6(g.Ext), fixed.Int26_6(g.Off)
			gl.XAdvance, gl.Width, gl.XOffset = c02Other, c02Other, c02Other
		} else {
			gl.XAdvance, gl.Width, gl.XOffset = fixed.Int26_6(g.Adv), fixed.Int26_6(g.Ext), fixed.Int26_6(g.Off)
			gl.YAdvance, gl.Height, gl.YOffset = c02Other, c02Other, c02Other
		}
		gl.VerifSetLetterSpacing(fixed.Int26_6(g.SLS), fixed.Int26_6(g.ELS))
		o.Glyphs[i] = gl
	}
	return o
}

// projection of a shaped run to the modelled fields
func c02FromOutput(o shaping.Output) c02Run {
	r := c02Run{Dir: uint8(o.Direction) & 3, Off: o.Runes.Offset, Cnt: o.Runes.Count, Adv: int32(o.Advance)}
	for _, g := range o.Glyphs {
		r.Glyphs = append(r.Glyphs, c02ProjectGlyph(r.Dir, g))
	}
	return r
}

func c02ProjectGlyph(dir uint8, g shaping.Glyph) c02Glyph {
	s, e := g.VerifLetterSpacing()
	out := c02Glyph{C: g.ClusterIndex, RC: g.RuneCount, GC: g.GlyphCount, SLS: int32(s), ELS: int32(e)}
	if c02Vertical(dir) {
		out.Adv, out.Ext, out.Off = int32(g.YAdvance), int32(g.Height), int32(g.YOffset)
	} else {
		out.Adv, out.Ext, out.Off = int32(g.XAdvance), int32(g.Width), int32(g.XOffset)
	}
	return out
}

func c02GlyphTerm(g c02Glyph) string {
	return vh.App("G", vh.Zi(g.C), vh.Zi(g.RC), vh.Zi(g.GC), vh.Z(int64(g.Adv)), vh.Z(int64(g.Ext)), vh.Z(int64(g.Off)),
		vh.Z(int64(g.SLS)), vh.Z(int64(g.ELS)))
}

func c02RunTerm(r c02Run) string {
	gs := make([]string, len(r.Glyphs))
	for i, g := range r.Glyphs {
		gs[i] = c02GlyphTerm(g)
	}
	return vh.Tuple(vh.Zi(int(r.Dir)), vh.Zi(r.Off), vh.Zi(r.Cnt), vh.Z(int64(r.Adv)), vh.List(gs))
}

// ---- running one case ---------------------------------------------------------------------------

type c02Arrays struct {
	base []unsafe.Pointer
	lens []int
}

// c02Data returns the data pointer of a slice (first word of the slice header).
func c02Data(g []shaping.Glyph) unsafe.Pointer { return *(*unsafe.Pointer)(unsafe.Pointer(&g)) }

// locate finds the input array (index) and offset a returned glyph slice points into.
func (a *c02Arrays) locate(g []shaping.Glyph) (src, lo int) {
	p := c02Data(g)
	if p == nil {
		return -1, 0
	}
	sz := unsafe.Sizeof(shaping.Glyph{})
	for i, b := range a.base {
		if b == nil {
			continue
		}
		d := uintptr(p) - uintptr(b)
		if uintptr(p) >= uintptr(b) && d <= uintptr(a.lens[i])*sz && d%sz == 0 {
			if int(d/sz) == a.lens[i] && len(g) > 0 {
				continue
			}
			return i, int(d / sz)
		}
	}
	return -2, 0
}

func (a *c02Arrays) runTerm(o shaping.Output) string {
	src, lo := a.locate(o.Glyphs)
	return vh.App("R", vh.Z(int64(o.Advance)), vh.Zi(int(o.Direction)), vh.Zi(o.Runes.Offset), vh.Zi(o.Runes.Count),
		vh.Zi(src), vh.Zi(lo), vh.Zi(len(o.Glyphs)), vh.Z(int64(o.VisualIndex)))
}

func (a *c02Arrays) lineTerm(l shaping.Line) string {
	rs := make([]string, len(l))
	for i, o := range l {
		rs[i] = a.runTerm(o)
	}
	return vh.List(rs)
}

func c02Attrs(text []rune) []uint8 {
	var seg segmenter.Segmenter
	seg.Init(text)
	return seg.VerifAttributes()
}

func c02Run_(o *vh.Out, inAny any) {
	in := inAny.(c02Input)
	attrs := c02Attrs(in.Text)
	al := make([]int64, len(attrs))
	for i, a := range attrs {
		al[i] = int64(a & 7)
	}
	// the shaped runs: ONE slice of Outputs reused by every call
	runs := make([]shaping.Output, len(in.Runs))
	orig := make([][]shaping.Glyph, len(in.Runs)+1)
	arr := &c02Arrays{}
	dirs := make([]uint8, 0, len(in.Runs)+1)
	for i, r := range in.Runs {
		runs[i] = c02ToOutput(r)
		orig[i] = append([]shaping.Glyph(nil), runs[i].Glyphs...)
		arr.base = append(arr.base, c02Data(runs[i].Glyphs))
		arr.lens = append(arr.lens, len(runs[i].Glyphs))
		dirs = append(dirs, r.Dir)
	}
	truncator := c02ToOutput(in.Truncator)
	orig[len(in.Runs)] = append([]shaping.Glyph(nil), truncator.Glyphs...)
	arr.base = append(arr.base, c02Data(truncator.Glyphs))
	arr.lens = append(arr.lens, len(truncator.Glyphs))
	dirs = append(dirs, in.Truncator.Dir)
	arrays := func(i int) []shaping.Glyph {
		if i < len(runs) {
			return runs[i].Glyphs
		}
		return truncator.Glyphs
	}

	var wrapper shaping.LineWrapper
	var fails []string
	var shared *c13Iter
	if in.Pre != nil && in.Pre.SameIter {
		shared = &c13Iter{}
	}
	mkIter := func(rs []shaping.Output) shaping.RunIterator {
		if shared != nil {
			shared.runs, shared.idx, shared.saved = rs, 0, 0
			return shared
		}
		return shaping.NewSliceIterator(rs)
	}
	if in.Pre != nil {
		func() {
			defer func() { recover() }()
			pruns := make([]shaping.Output, len(in.Pre.Runs))
			for i, r := range in.Pre.Runs {
				pruns[i] = c02ToOutput(r)
			}
			cfg := shaping.WrapConfig{BreakPolicy: shaping.LineBreakPolicy(in.Pre.Policy)}
			if len(pruns) > 0 {
				cfg.Direction = pruns[0].Direction
			}
			if in.Pre.Mode == 0 {
				wrapper.WrapParagraph(cfg, in.Pre.Width, in.Pre.Text, mkIter(pruns))
			} else {
				wrapper.Prepare(cfg, in.Pre.Text, mkIter(pruns))
				for it := 0; it < 2*len(in.Pre.Text)+8; it++ {
					if _, done := wrapper.WrapNextLine(in.Pre.Width); done {
						break
					}
				}
			}
		}()
	}
	callTerms := make([]string, 0, len(in.Calls))
	nLines, maxLines, anyTrunc := 0, 0, false
	for _, cl := range in.Calls {
		if cl.Reset {
			for i := range orig {
				copy(arrays(i), orig[i])
			}
		}
		// snapshot for the diff
		before := make([][]shaping.Glyph, len(orig))
		for i := range orig {
			before[i] = append([]shaping.Glyph(nil), arrays(i)...)
		}
		cfg := shaping.WrapConfig{
			Direction: di.Direction(cl.Dir), TruncateAfterLines: cl.Trunc, Truncator: truncator, TextContinues: cl.Cont,
			BreakPolicy: shaping.LineBreakPolicy(cl.Policy), DisableTrailingWhitespaceTrim: cl.NoTrim,
		}
		var (
			panicked  any
			lines     []string
			truncated int
			steps     []string
		)
		func() {
			defer func() { panicked = recover() }()
			if cl.Mode == 0 {
				w := 0
				if len(cl.Widths) > 0 {
					w = cl.Widths[0]
				}
				ls, tr := wrapper.WrapParagraph(cfg, w, in.Text, mkIter(runs))
				truncated = tr
				for _, l := range ls {
					lines = append(lines, arr.lineTerm(l))
				}
				nLines += len(ls)
				if len(ls) > maxLines {
					maxLines = len(ls)
				}
				if tr > 0 {
					anyTrunc = true
				}
			} else {
				wrapper.Prepare(cfg, in.Text, mkIter(runs))
				ws := cl.Widths
				limit := 2*len(in.Text) + 8
				for it := 0; it < limit; it++ {
					wd := 0
					if len(ws) > 0 {
						wd = ws[0]
					}
					if len(ws) > 1 {
						ws = ws[1:]
					}
					step := func() bool {
						wl, done := wrapper.WrapNextLine(wd)
						lt := "None"
						if wl.Line != nil {
							lt = vh.Some(arr.lineTerm(wl.Line))
							nLines++
						}
						if wl.Truncated > 0 {
							anyTrunc = true
						}
						steps = append(steps, vh.Tuple(lt, vh.Zi(wl.Truncated), vh.Zi(wl.NextLine), vh.Bool(done)))
						return done
					}
					if step() {
						step() // one more call after the end
						break
					}
				}
			}
		}()
		// glyph diff + invariants that the model relies on
		var diff []string
		for i := range orig {
			now := arrays(i)
			for j := range now {
				a, b := before[i][j], now[j]
				if a == b {
					continue
				}
				pa, pb := c02ProjectGlyph(dirs[i], a), c02ProjectGlyph(dirs[i], b)
				// fields outside the projection, or structure fields, must not change
				a2, b2 := a, b
				if c02Vertical(dirs[i]) {
					a2.YAdvance, a2.YOffset, b2.YAdvance, b2.YOffset = 0, 0, 0, 0
				} else {
					a2.XAdvance, a2.XOffset, b2.XAdvance, b2.XOffset = 0, 0, 0, 0
				}
				a2.VerifSetLetterSpacing(0, fixed.Int26_6(pa.ELS))
				b2.VerifSetLetterSpacing(0, fixed.Int26_6(pb.ELS))
				if a2 != b2 {
					fails = append(fails, fmt.Sprintf("glyph %d of array %d changed outside the modelled fields", j, i))
				}
				diff = append(diff, vh.Tuple(vh.Zi(i), vh.Zi(j), vh.Z(int64(pb.Adv)), vh.Z(int64(pb.Off)), vh.Z(int64(pb.SLS))))
			}
		}
		ws := make([]int, len(cl.Widths))
		copy(ws, cl.Widths)
		callTerms = append(callTerms, vh.App("mkCall", vh.Zi(int(cl.Dir)), vh.Zi(cl.Trunc), vh.Bool(cl.Cont), vh.Zi(int(cl.Policy)),
			vh.Bool(cl.NoTrim), vh.Zi(cl.Mode), vh.IntList(ws), vh.Bool(panicked != nil), vh.List(lines), vh.Zi(truncated),
			vh.List(steps), vh.List(diff), vh.Bool(cl.Reset)))
		if panicked != nil {
			if in.Tag != "malformed" {
				fails = append(fails, fmt.Sprint("panic: ", panicked))
			}
			break
		}
	}
	rs := make([]string, len(in.Runs))
	for i, r := range in.Runs {
		rs[i] = c02RunTerm(r)
	}
	coq := vh.App("mkCase", vh.ZList(al), vh.List(rs), c02RunTerm(in.Truncator), vh.List(callTerms))
	key := ""
	if len(in.Text) >= 2 && len(in.Calls) > 0 {
		b, _ := json.Marshal(in)
		key = string(b)
	}
	classes := []string{fmt.Sprintf("runes=%d", c02Bucket(len(in.Text))), fmt.Sprintf("runs=%d", len(in.Runs)),
		fmt.Sprintf("maxlines=%d", c02Bucket(maxLines))}
	if in.Tag != "" {
		classes = append(classes, "tag="+in.Tag)
	}
	if anyTrunc {
		classes = append(classes, "truncated")
	}
	for range in.Calls {
		classes = append(classes, "calls")
	}
	idx := o.Add(in, coq, key, classes...)
	for _, f := range fails {
		kind := "invariant"
		if len(f) > 5 && f[:5] == "panic" {
			kind = "panic"
		}
		o.Fail(idx, kind, f)
	}
}

func c02Bucket(n int) int {
	switch {
	case n <= 6:
		return n
	case n <= 12:
		return 12
	case n <= 32:
		return 32
	}
	return 64
}

// ---- generators ---------------------------------------------------------------------------------

var c02Alphabet = []rune{'a', ' ', '\n', 0x0301, '-', 0x4E2D}

func c02IsSpace(r rune) bool { return r == ' ' || r == '\n' || r == 0x200B || r == '\t' }

type c02Shape struct {
	paraDir uint8
}

// c02Structure builds synthetic shaped runs for text: a partition into runs, each partitioned into clusters.
// style: 0 = one left-to-right run with one glyph per rune; otherwise random.
func c02Structure(r *vh.Rand, text []rune, style int) (runs []c02Run, paraDir uint8) {
	n := len(text)
	if n == 0 {
		return nil, 0
	}
	nruns := 1
	vertical := false
	if style != 0 {
		switch x := r.Intn(100); {
		case x < 45:
			nruns = 1
		case x < 80:
			nruns = 2
		default:
			nruns = 3
		}
		if nruns > n {
			nruns = n
		}
		vertical = r.Chance(4)
		if r.Chance(35) {
			paraDir = 1
		}
	}
	// split points
	cuts := map[int]bool{}
	for len(cuts) < nruns-1 {
		cuts[r.Range(1, n-1)] = true
	}
	start := 0
	advChoices := []int32{64, 64, 64, 128, 32, 70, 192, 0}
	for end := 1; end <= n; end++ {
		if end != n && !cuts[end] {
			continue
		}
		dir := paraDir
		if style != 0 && r.Chance(30) {
			dir ^= 1
		}
		if vertical {
			dir |= 2
		}
		run := c02Run{Dir: dir, Off: start, Cnt: end - start}
		// clusters in logical order
		type cluster struct {
			c, rc int
			gl    []c02Glyph
		}
		var cls []cluster
		for p := start; p < end; {
			rc := 1
			if style != 0 {
				switch x := r.Intn(100); {
				case x < 70:
				case x < 90:
					rc = 2
				default:
					rc = 3
				}
			}
			if p+rc > end {
				rc = end - p
			}
			gc := 1
			if style != 0 {
				switch x := r.Intn(100); {
				case x < 75:
				case x < 93:
					gc = 2
				default:
					gc = 3
				}
			}
			cl := cluster{c: p, rc: rc}
			for k := 0; k < gc; k++ {
				adv := int32(64)
				if style != 0 {
					adv = advChoices[r.Intn(len(advChoices))]
				}
				ext := adv
				if ext == 0 {
					ext = 40
				}
				if rc == 1 && c02IsSpace(text[p]) {
					ext = 0
					if style != 0 && r.Chance(10) {
						adv = 0 // zero-width space
					}
				} else if style != 0 && r.Chance(4) {
					ext = 0 // an empty glyph that is not a space
				}
				if text[p] == 0x0301 && rc == 1 && style != 0 && r.Chance(50) {
					adv = 0
				}
				cl.gl = append(cl.gl, c02Glyph{C: p, RC: rc, GC: gc, Adv: adv, Ext: ext})
			}
			cls = append(cls, cl)
			p += rc
		}
		if c02RTL(dir) {
			for i := len(cls) - 1; i >= 0; i-- {
				run.Glyphs = append(run.Glyphs, cls[i].gl...)
			}
		} else {
			for _, cl := range cls {
				run.Glyphs = append(run.Glyphs, cl.gl...)
			}
		}
		for _, g := range run.Glyphs {
			run.Adv += g.Adv
		}
		runs = append(runs, run)
		start = end
	}
	if vertical {
		paraDir |= 2
	}
	return runs, paraDir
}

// c02Spacing applies the library's own AddSpacing to synthetic runs (letter spacing bookkeeping as the library sets it).
func c02Spacing(runs []c02Run, text []rune, word, letter int32) []c02Run {
	outs := make([]shaping.Output, len(runs))
	for i, r := range runs {
		outs[i] = c02ToOutput(r)
	}
	shaping.AddSpacing(outs, text, fixed.Int26_6(word), fixed.Int26_6(letter))
	res := make([]c02Run, len(runs))
	for i := range outs {
		res[i] = c02FromOutput(outs[i])
		res[i].Dir = runs[i].Dir
	}
	return res
}

func c02TotalPx(runs []c02Run) int {
	var t int32
	for _, r := range runs {
		t += r.Adv
	}
	return int((t + 63) >> 6)
}

func c02Truncator(r *vh.Rand, paraDir uint8, style int) c02Run {
	adv := int32(64)
	if style != 0 {
		adv = []int32{64, 64, 0, 100, 128}[r.Intn(5)]
	}
	dir := paraDir
	if style != 0 && r.Chance(15) {
		dir ^= 1
	}
	return c02Run{Dir: dir, Off: 0, Cnt: 1, Adv: adv, Glyphs: []c02Glyph{{C: 0, RC: 1, GC: 1, Adv: adv, Ext: adv}}}
}

// c02GridCalls: every width 0..total+1 x 3 policies x truncation settings, each on the restored input.
func c02GridCalls(r *vh.Rand, paraDir uint8, total int, full bool) []c02Call {
	var calls []c02Call
	truncs := []struct {
		k    int
		cont bool
	}{{0, false}, {1, false}, {2, false}, {1, true}, {2, true}}
	for w := 0; w <= total+1; w++ {
		for pol := uint8(0); pol < 3; pol++ {
			for ti, t := range truncs {
				if !full && ti > 0 && r.Chance(70) {
					continue
				}
				c := c02Call{Dir: paraDir, Trunc: t.k, Cont: t.cont, Policy: pol, Widths: []int{w}, Reset: true}
				if r.Chance(15) {
					c.NoTrim = true
				}
				if r.Chance(15) {
					c.Mode = 1
					if r.Chance(50) {
						c.Widths = []int{w, r.Range(0, total+1), r.Range(0, total+1)}
					}
				}
				calls = append(calls, c)
			}
		}
	}
	return calls
}

func c02RandomCalls(r *vh.Rand, paraDir uint8, total, k int) []c02Call {
	var calls []c02Call
	for i := 0; i < k; i++ {
		c := c02Call{Dir: paraDir, Policy: uint8(r.Intn(3)), Reset: !r.Chance(25)}
		switch x := r.Intn(10); {
		case x < 5:
		case x < 8:
			c.Trunc = r.Range(1, 3)
		default:
			c.Trunc = r.Range(1, 3)
			c.Cont = true
		}
		if r.Chance(15) {
			c.NoTrim = true
		}
		w := r.Range(0, total+1)
		if r.Chance(10) {
			w = total + 1000
		}
		c.Widths = []int{w}
		if r.Chance(25) {
			c.Mode = 1
			for j := r.Intn(4); j > 0; j-- {
				c.Widths = append(c.Widths, r.Range(0, total+1))
			}
		}
		if r.Chance(5) && paraDir&2 == 0 {
			c.Dir = paraDir ^ 1 // paragraph direction differing from the one the runs were built for
		}
		calls = append(calls, c)
	}
	return calls
}

func c02RandomText(r *vh.Rand, maxLen int) []rune {
	extra := []rune{'b', 'a', 'a', ' ', ' ', 0x200B, 0x05D0, '.', 0x00AD, '\t', 0x0600, 0x1F600, 0x200D}
	n := r.Range(1, maxLen)
	t := make([]rune, n)
	for i := range t {
		if r.Chance(75) {
			t[i] = c02Alphabet[r.Intn(len(c02Alphabet))]
		} else {
			t[i] = extra[r.Intn(len(extra))]
		}
	}
	return t
}

// fixed witnesses run first in every tier
func c02Witnesses() []c02Input {
	one := func(p int, adv int32, ext int32) c02Glyph { return c02Glyph{C: p, RC: 1, GC: 1, Adv: adv, Ext: ext} }
	var out []c02Input
	// F6: one run "aa bb cc" (10 px per glyph) wrapped at 35, then 1000, then 65 with the same []Output
	{
		text := []rune("aa bb cc")
		run := c02Run{Dir: 0, Off: 0, Cnt: 8}
		for i, c := range text {
			e := int32(640)
			if c == ' ' {
				e = 0
			}
			run.Glyphs = append(run.Glyphs, one(i, 640, e))
			run.Adv += 640
		}
		out = append(out, c02Input{Text: text, Runs: []c02Run{run}, Truncator: c02Truncator(nil, 0, 0), Tag: "F6",
			Calls: []c02Call{{Widths: []int{35}}, {Widths: []int{1000}}, {Widths: []int{65}}}})
	}
	// F6 (repaired), single-run fast path: one run "aa bb " with 4 px letter spacing applied by the library; the first call
	// (no whitespace trim, narrow) trims the start letter spacing of the first glyph of each line through the aliasing slices,
	// so the caller's Advance is stale; then WrapParagraph at every width around the real and the stale advance with the
	// same []Output: the fast path must decide on the advance recomputed from the glyphs (when it is taken the trailing
	// space keeps its advance, when the wrapper runs it is zeroed: the store shows which path was taken)
	{
		text := []rune("aa bb ")
		run := c02Run{Dir: 0, Off: 0, Cnt: 6}
		for i, c := range text {
			e := int32(512)
			if c == ' ' {
				e = 0
			}
			run.Glyphs = append(run.Glyphs, one(i, 640, e))
			run.Adv += 640
		}
		runs := c02Spacing([]c02Run{run}, text, 0, 256)
		total := c02TotalPx(runs)
		for w := total - 12; w <= total+1; w++ {
			out = append(out, c02Input{Text: text, Runs: runs, Truncator: c02Truncator(nil, 0, 0), Tag: "F6",
				Calls: []c02Call{{Widths: []int{30}, NoTrim: true, Reset: true}, {Widths: []int{w}}, {Widths: []int{w}, Policy: 1}}})
		}
	}
	// F7: runes a b c d SP e f, clusters a, b, c, "d e", f; width for two glyphs; WhenNecessary
	{
		text := []rune("abcd ef")
		run := c02Run{Dir: 0, Off: 0, Cnt: 7}
		run.Glyphs = []c02Glyph{one(0, 64, 64), one(1, 64, 64), one(2, 64, 64), {C: 3, RC: 3, GC: 1, Adv: 64, Ext: 64}, one(6, 64, 64)}
		run.Adv = 5 * 64
		var calls []c02Call
		for pol := uint8(0); pol < 3; pol++ {
			calls = append(calls, c02Call{Policy: pol, Widths: []int{2}, Reset: true})
		}
		out = append(out, c02Input{Text: text, Runs: []c02Run{run}, Truncator: c02Truncator(nil, 0, 0), Tag: "F7", Calls: calls})
	}
	// F37 (repaired): runes a SP U+0301 b b, clusters "a SP" (one glyph, 3 px), U+0301, b, b; width 2: the UAX #14 option after
	// the space is not a grapheme boundary and does not fit, no grapheme boundary before it is usable (inside the cluster):
	// the option is used anyway (before the repair: nil line, option dropped, "U+0301 b b" split although it fits)
	{
		text := []rune("a \u0301bb")
		run := c02Run{Dir: 0, Off: 0, Cnt: 5}
		run.Glyphs = []c02Glyph{{C: 0, RC: 2, GC: 1, Adv: 192, Ext: 192}, {C: 2, RC: 1, GC: 1, Adv: 0, Ext: 64}, one(3, 64, 64), one(4, 64, 64)}
		run.Adv = 5 * 64
		var calls []c02Call
		for pol := uint8(0); pol < 3; pol++ {
			calls = append(calls, c02Call{Policy: pol, Widths: []int{2}, Reset: true})
			calls = append(calls, c02Call{Policy: pol, Widths: []int{2}, Reset: true, Mode: 1})
			calls = append(calls, c02Call{Policy: pol, Trunc: 2, Widths: []int{2}, Reset: true})
			calls = append(calls, c02Call{Policy: pol, Trunc: 2, Cont: true, Widths: []int{2}, Reset: true, Mode: 1})
		}
		out = append(out, c02Input{Text: text, Runs: []c02Run{run}, Truncator: c02Truncator(nil, 0, 0), Tag: "F37", Calls: calls})
	}
	// F8: two runs "aaa" + "bbb ccc", truncation after one line, every width and policy
	{
		text := []rune("aaabbb ccc")
		r0 := c02Run{Dir: 0, Off: 0, Cnt: 3}
		r1 := c02Run{Dir: 0, Off: 3, Cnt: 7}
		for i, c := range text {
			e := int32(64)
			if c == ' ' {
				e = 0
			}
			if i < 3 {
				r0.Glyphs = append(r0.Glyphs, one(i, 64, e))
				r0.Adv += 64
			} else {
				r1.Glyphs = append(r1.Glyphs, one(i, 64, e))
				r1.Adv += 64
			}
		}
		var calls []c02Call
		for w := 0; w <= 11; w++ {
			for pol := uint8(0); pol < 3; pol++ {
				calls = append(calls, c02Call{Policy: pol, Trunc: 1, Widths: []int{w}, Reset: true})
			}
		}
		out = append(out, c02Input{Text: text, Runs: []c02Run{r0, r1}, Truncator: c02Truncator(nil, 0, 0), Tag: "F8", Calls: calls})
	}
	// letter spacing over two runs "aaa " + "bbb" (10 px glyphs, 4 px letter spacing applied by the library): the second run
	// starts a line and is placed on it whole; with and without the trailing whitespace trim, every width around the break
	{
		text := []rune("aaa bbb")
		mk := func(from, to int) c02Run {
			r := c02Run{Dir: 0, Off: from, Cnt: to - from}
			for i := from; i < to; i++ {
				e := int32(512)
				if text[i] == ' ' {
					e = 0
				}
				r.Glyphs = append(r.Glyphs, one(i, 640, e))
				r.Adv += 640
			}
			return r
		}
		runs := c02Spacing([]c02Run{mk(0, 4), mk(4, 7)}, text, 0, 256)
		var calls []c02Call
		for w := 30; w <= 62; w += 2 {
			for pol := uint8(0); pol < 2; pol++ {
				calls = append(calls, c02Call{Policy: pol, Widths: []int{w}, Reset: true, NoTrim: true})
				calls = append(calls, c02Call{Policy: pol, Widths: []int{w}, Reset: true, Mode: int(pol)})
			}
		}
		out = append(out, c02Input{Text: text, Runs: runs, Truncator: c02Truncator(nil, 0, 0), Tag: "spacing", Calls: calls})
	}
	out = append(out, c02Long()...)
	return out
}

// c02Long: paragraphs whose lines hold more than 100 run pieces in total (the initial capacity of the wrapper's line
// storage): every word is its own run; the number of words per line is chosen so that the storage runs out in the middle of
// a line (100 is not a multiple of 3, 6, 7) and, on the following calls with the same LineWrapper, after the storage has grown.
func c02Long() []c02Input {
	one := func(p int, adv int32, ext int32) c02Glyph { return c02Glyph{C: p, RC: 1, GC: 1, Adv: adv, Ext: ext} }
	build := func(word string, words int) ([]rune, []c02Run) {
		var text []rune
		var runs []c02Run
		for w := 0; w < words; w++ {
			r := c02Run{Dir: 0, Off: len(text), Cnt: len([]rune(word))}
			for _, c := range word {
				e := int32(512)
				if c == ' ' {
					e = 0
				}
				r.Glyphs = append(r.Glyphs, one(len(text), 640, e))
				r.Adv += 640
				text = append(text, c)
			}
			runs = append(runs, r)
		}
		return text, runs
	}
	var out []c02Input
	{
		text, runs := build("ab ", 120) // 30 px per word, the trailing space of a line is not counted
		out = append(out, c02Input{Text: text, Runs: runs, Truncator: c02Truncator(nil, 0, 0), Tag: "long", Calls: []c02Call{
			{Widths: []int{85}, Reset: true},                        // 3 words per line, 40 lines
			{Widths: []int{205}, Reset: true},                       // 7 words per line, after the storage has grown
			{Widths: []int{85}, Reset: true, Mode: 1, Policy: 1},    // line by line
			{Widths: []int{175}, Reset: true, Trunc: 30, Policy: 2}, // 6 words per line, truncated after 30 lines
		}})
	}
	{
		text, runs := build("a ", 110) // 20 px per word
		out = append(out, c02Input{Text: text, Runs: runs, Truncator: c02Truncator(nil, 0, 0), Tag: "long", Calls: []c02Call{
			{Widths: []int{55}, Reset: true, Mode: 1},       // 3 words per line
			{Widths: []int{135}, Reset: true, NoTrim: true}, // 7 words per line
		}})
	}
	return out
}

var c02Faces map[string]*font.Face

func c02Face(name string) *font.Face {
	if c02Faces == nil {
		c02Faces = map[string]*font.Face{}
	}
	if f, ok := c02Faces[name]; ok {
		return f
	}
	b, err := td.Files.ReadFile(name)
	if err != nil {
		c02Faces[name] = nil
		return nil
	}
	face, err := font.ParseTTF(bytes.NewReader(b))
	if err != nil {
		c02Faces[name] = nil
		return nil
	}
	c02Faces[name] = face
	return face
}

// c02Real shapes a two-script paragraph with real fonts and projects the runs to the modelled fields.
func c02Real(r *vh.Rand) (c02Input, bool) {
	latinFace, arabicFace := c02Face("common/DejaVuSans.ttf"), c02Face("common/NotoSansArabic.ttf")
	if latinFace == nil || arabicFace == nil {
		return c02Input{}, false
	}
	latinWords := []string{"office", "fi", "wrap", "a", "lines", "affix,", "x-ray", "to\n", "ét́e", "I'm"}
	arabicWords := []string{"سلام", "لا", "الله", "مرحبا", "في", "كتاب"}
	mk := func(words []string) string {
		s := ""
		for k := r.Range(1, 4); k > 0; k-- {
			s += words[r.Intn(len(words))]
			if k > 1 || r.Chance(50) {
				s += " "
			}
		}
		return s
	}
	type part struct {
		s      string
		arabic bool
	}
	var parts []part
	for k := r.Range(1, 3); k > 0; k-- {
		ar := r.Chance(40)
		if len(parts) > 0 {
			ar = !parts[len(parts)-1].arabic
		}
		parts = append(parts, part{mk(map[bool][]string{false: latinWords, true: arabicWords}[ar]), ar})
	}
	var text []rune
	var bounds []int
	for _, p := range parts {
		text = append(text, []rune(p.s)...)
		bounds = append(bounds, len(text))
	}
	var shaper shaping.HarfbuzzShaper
	var outs []shaping.Output
	start := 0
	for i, p := range parts {
		in := shaping.Input{Text: text, RunStart: start, RunEnd: bounds[i], Size: fixed.I(r.Range(8, 20)),
			Direction: di.DirectionLTR, Face: latinFace, Script: language.Latin, Language: language.NewLanguage("en")}
		if p.arabic {
			in.Direction, in.Face, in.Script, in.Language = di.DirectionRTL, arabicFace, language.Arabic, language.NewLanguage("ar")
		}
		outs = append(outs, shaper.Shape(in))
		start = bounds[i]
	}
	if r.Chance(50) {
		shaping.AddSpacing(outs, text, fixed.Int26_6(r.Range(0, 2)*64), fixed.Int26_6(r.Range(1, 4)*50))
	}
	in := c02Input{Text: text, Tag: "real"}
	for _, o := range outs {
		in.Runs = append(in.Runs, c02FromOutput(o))
	}
	paraDir := uint8(0)
	if parts[0].arabic {
		paraDir = 1
	}
	tr := shaper.Shape(shaping.Input{Text: []rune("…"), RunStart: 0, RunEnd: 1, Size: fixed.I(12), Direction: di.Direction(paraDir),
		Face: latinFace, Script: language.Latin, Language: language.NewLanguage("en")})
	in.Truncator = c02FromOutput(tr)
	in.Calls = c02RandomCalls(r, paraDir, c02TotalPx(in.Runs), 6)
	return in, true
}

func c02Gen(r *vh.Rand, tier string, n int, emit func(any)) {
	for _, w := range c02Witnesses() {
		emit(w)
	}
	emit(c02Input{Text: nil, Truncator: c02Truncator(r, 0, 0), Calls: []c02Call{{Widths: []int{3}}, {Widths: []int{3}, Trunc: 1, Cont: true, Mode: 1}}})
	build := func(text []rune, style int, grid, full bool) c02Input {
		runs, paraDir := c02Structure(r, text, style)
		if style != 0 && r.Chance(30) {
			runs = c02Spacing(runs, text, []int32{0, 0, 32}[r.Intn(3)], []int32{64, 20, 33, 128}[r.Intn(4)])
		}
		if style != 0 && r.Chance(5) { // arbitrary bookkeeping values
			for i := range runs {
				for j := range runs[i].Glyphs {
					if r.Chance(30) {
						g := &runs[i].Glyphs[j]
						s := int32(r.Range(1, 30))
						g.SLS, g.Adv = g.SLS+s, g.Adv+s
						runs[i].Adv += s
					}
				}
			}
		}
		in := c02Input{Text: text, Runs: runs, Truncator: c02Truncator(r, paraDir, style)}
		if style != 0 && len(text) >= 2 && r.Chance(25) {
			// a paragraph of the same length and run layout but another cluster structure (one glyph per rune), or an
			// unrelated one, wrapped narrowly so that the wrapper really maps its runs
			pre := &c02Pre{Policy: uint8(r.Intn(3)), Mode: r.Intn(2), Width: r.Range(1, 40), SameIter: r.Chance(50)}
			if r.Chance(70) {
				pre.Text = append([]rune(nil), text...)
				for i := range pre.Text {
					if !c02IsSpace(pre.Text[i]) && r.Chance(50) {
						pre.Text[i] = 'x'
					}
				}
				for _, ru := range runs {
					pr := c02Run{Dir: ru.Dir, Off: ru.Off, Cnt: ru.Cnt}
					for k := 0; k < ru.Cnt; k++ {
						c := ru.Off + k
						if c02RTL(ru.Dir) {
							c = ru.Off + ru.Cnt - 1 - k
						}
						pr.Glyphs = append(pr.Glyphs, c02Glyph{C: c, RC: 1, GC: 1, Adv: 10 * 64, Ext: 10 * 64})
						pr.Adv += 10 * 64
					}
					pre.Runs = append(pre.Runs, pr)
				}
			} else {
				pre.Text = c02RandomText(r, 10)
				pre.Runs, _ = c02Structure(r, pre.Text, 1)
			}
			in.Pre = pre
		}
		total := c02TotalPx(runs)
		if grid {
			in.Calls = c02GridCalls(r, paraDir, total, full)
		} else {
			in.Calls = c02RandomCalls(r, paraDir, total, r.Range(3, 8))
		}
		return in
	}
	// exhaustive small scope: every text up to maxLen over the alphabet
	maxLen := 2
	if tier == "thorough" {
		maxLen = 5
	}
	if tier == "search" {
		maxLen = 3
	}
	var rec func(prefix []rune)
	rec = func(prefix []rune) {
		if len(prefix) > 0 {
			t := append([]rune(nil), prefix...)
			emit(build(t, 0, true, tier != "quick" && len(t) <= 3))
			if tier == "quick" || len(t) <= 4 || r.Chance(60) {
				emit(build(t, 1, true, false))
			}
		}
		if len(prefix) == maxLen {
			return
		}
		for _, c := range c02Alphabet {
			rec(append(prefix, c))
		}
	}
	rec(nil)
	for i := 0; i < n; i++ {
		switch {
		case i%20 == 7:
			if in, ok := c02Real(r); ok {
				emit(in)
				continue
			}
			fallthrough
		case i%20 == 13: // malformed: runs that do not cover the text / broken cluster fields
			text := c02RandomText(r, 6)
			in := build(text, 1, false, false)
			in.Tag = "malformed"
			// no prelude paragraph on malformed runs: the model starts from the zero wrapper, and that this is
			// indistinguishable from a used one (the stale rune -> glyph mapping buffer) is a theorem for
			// well-formed runs only (C13 wrap_history_independent)
			in.Pre = nil
			switch r.Intn(3) {
			case 0:
				in.Runs = in.Runs[:len(in.Runs)-1]
			case 1:
				if len(in.Runs[0].Glyphs) > 0 {
					g := &in.Runs[0].Glyphs[r.Intn(len(in.Runs[0].Glyphs))]
					g.RC += r.Range(-2, 2)
				}
			case 2:
				if len(in.Runs[0].Glyphs) > 0 {
					g := &in.Runs[0].Glyphs[r.Intn(len(in.Runs[0].Glyphs))]
					g.GC += r.Range(1, 2)
				}
			}
			if len(in.Runs) == 0 {
				in.Tag = ""
			}
			emit(in)
		case i%4 == 0:
			emit(build(c02RandomText(r, 5), 1, true, false))
		case i%4 == 1:
			emit(build(c02RandomText(r, 8), 1, false, false))
		default:
			emit(build(c02RandomText(r, 16), 1, false, false))
		}
	}
}
