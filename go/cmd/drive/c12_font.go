package main

import (
	"encoding/json"
	"fmt"
	"math"
	"reflect"

	"github.com/go-text/typesetting/font"
	ot "github.com/go-text/typesetting/font/opentype"
	"github.com/go-text/typesetting/harfbuzz"
	"github.com/go-text/typesetting/language"

	"verifharness/internal/vh"
)

// Drivers c12font and c12pos (property C12): harfbuzz/fonts.go and the default positioning of harfbuzz/ot_shaper.go.
//
// c12font: (a) the scaling primitives emScalef / emScaleX,Y / emFscale / roundf on random (value, scale, upem)
// triples; (b) the font functions (ExtentsForDirection, fontHExtentsWithFallback, GlyphHAdvance, getGlyphVAdvance,
// GlyphAdvanceForDirection, the origins with fallback, subtract/add origin, GlyphExtents) on corpus faces, with the
// answers of the face handed to the model Model/HbFont.v as data.  The cached upem of the font is overridden through
// the hook (the face answers in font units whatever it is), and faces without hhea / vhea / vmtx are made through
// font.VerifStripMetrics, so that the fallback branches run on real code.
// c12pos: real shaping calls cut at otContext.position through harfbuzz.VerifPositionStages.

type c12fontInput struct {
	Kind string `json:"kind"` // "scale" | "face"
	// scale
	VBits uint32 `json:"vbits,omitempty"`
	V16   int16  `json:"v16,omitempty"`
	// both
	XScale int32 `json:"xscale"`
	YScale int32 `json:"yscale"`
	Upem   int32 `json:"upem"` // 0 = keep the face's own (face cases)
	// face
	Font   string `json:"font,omitempty"`
	Strip  int    `json:"strip,omitempty"` // bit 0: hhea, bit 1: vhea, bit 2: vmtx
	Var    bool   `json:"var,omitempty"`   // variable fonts: a non-default instance
	Glyphs []int  `json:"glyphs,omitempty"`
	Dir    int    `json:"dir,omitempty"`
	PX     int32  `json:"px,omitempty"`
	PY     int32  `json:"py,omitempty"`
}

func init() {
	drivers["c12font"] = &driver{
		header: "From TV Require Import Check.C12font.",
		shard:  60,
		n: func(tier string) int {
			if tier == "quick" {
				return 900
			}
			return 20000
		},
		decode: func(raw json.RawMessage) (any, error) {
			var in c12fontInput
			err := json.Unmarshal(raw, &in)
			return in, err
		},
		gen: c12fontGen,
		run: c12fontRun,
	}
}

var c12fontFonts = []string{"Roboto-Regular.ttf", "Amiri-Regular.ttf", "UbuntuMono-R.ttf", "Selawik-VF-Subset.ttf",
	"u:common/mplus-1p-regular.ttf", "u:common/NotoSansCJKjp-VF.otf", "u:common/NotoSansMongolian-Regular.ttf",
	"u:common/Raleway-v4020-Regular.otf", "u:bitmap/NotoColorEmoji.ttf", "u:toys/Sbix1.ttf", "u:toys/CBLC1.ttf",
	"u:common/Lmmono-italic.otf", "u:common/SourceSans-VF.ttf", "u:toys/CFF2-VF.otf", "u:toys/Var1.ttf", "u:toys/Feat.ttf"}

// scale values: 64 * px inside the stated range, then unusual ones
func c12fontScale(r *vh.Rand) int32 {
	switch {
	case r.Chance(55):
		px := []int{1, 2, 9, 10, 12, 13, 16, 24, 32, 48, 64, 72, 100, 128, 255, 256, 1000, 1024, 2047, 2200, 4095, 4096}
		return int32(64 * px[r.Intn(len(px))])
	case r.Chance(50):
		return int32(64 * r.Range(1, 4096))
	case r.Chance(40):
		return int32(r.Range(-70000, 300000))
	case r.Chance(50):
		return []int32{0, 1, -1, -64, 1 << 24, 1<<24 + 1, 1 << 29, 1<<29 + 1, 1<<30 + 64, math.MaxInt32, math.MinInt32, math.MinInt32 + 1, 5 * 64 * 4096}[r.Intn(13)]
	}
	return int32(r.Range(1, 1<<18))
}

func c12fontUpem(r *vh.Rand) int32 {
	switch {
	case r.Chance(50):
		return []int32{1000, 2048, 1024, 16, 16384, 2000, 1500, 800, 256, 4096}[r.Intn(10)]
	case r.Chance(70):
		return int32(r.Range(16, 16384))
	case r.Chance(50):
		return int32(r.Range(1, 65535))
	}
	return []int32{1, 2, 3, 15, 17, 65535, 32768, 32767}[r.Intn(8)]
}

func c12fontValue(r *vh.Rand) float32 {
	switch {
	case r.Chance(50):
		return float32(r.Range(-2500, 2500))
	case r.Chance(50):
		return float32(r.Range(-32768, 32767))
	case r.Chance(40):
		return float32(r.Range(-32768*64, 32767*64)) / 64 // what a variable font delta looks like
	case r.Chance(40):
		return float32(r.Range(-1<<24, 1<<24)) / float32(int(1)<<uint(r.Intn(20)))
	case r.Chance(50):
		return []float32{0, 0.5, -0.5, 1.5, 2.5, -2.5, 0.49999997, 32767, -32768, 8388607.5, 8388608, 16777216, 16777217, 1e9, -1e9, 3e9, 1e-30, -1e-40}[r.Intn(18)]
	}
	return float32(r.Range(-1<<30, 1<<30))
}

func c12fontGen(r *vh.Rand, tier string, n int, emit func(any)) {
	for i := 0; i < n; i++ {
		in := c12fontInput{XScale: c12fontScale(r), Upem: c12fontUpem(r)}
		in.YScale = in.XScale
		if r.Chance(25) {
			in.YScale = c12fontScale(r)
		}
		if i%3 != 0 {
			in.Kind = "scale"
			in.VBits = math.Float32bits(c12fontValue(r))
			in.V16 = int16(r.Range(-32768, 32767))
			if r.Chance(50) {
				in.V16 = int16(r.Range(-2500, 2500))
			}
			emit(in)
			continue
		}
		in.Kind = "face"
		in.Font = c12fontFonts[r.Intn(len(c12fontFonts))]
		if r.Chance(40) {
			in.Upem = 0
		}
		if r.Chance(35) {
			in.Strip = r.Range(1, 7)
		}
		in.Var = r.Chance(50)
		in.Dir = []int{4, 5, 6, 7, 4, 6, 0, 1, 2, 3, 8, 12}[r.Intn(12)]
		ng := r.Range(1, 4)
		for k := 0; k < ng; k++ {
			switch {
			case r.Chance(70):
				in.Glyphs = append(in.Glyphs, -1-r.Intn(24)) // negative: index into c12fontRunes (nominal glyph of that rune)
			case r.Chance(70):
				in.Glyphs = append(in.Glyphs, r.Range(0, 700))
			default:
				in.Glyphs = append(in.Glyphs, []int{0, 1, 65535, 65534, 40000}[r.Intn(5)])
			}
		}
		in.PX, in.PY = int32(r.Range(-100000, 100000)), int32(r.Range(-100000, 100000))
		if r.Chance(5) {
			in.PX, in.PY = math.MaxInt32-int32(r.Intn(50)), math.MinInt32+int32(r.Intn(50))
		}
		emit(in)
	}
}

var c12fontRunes = []rune("AVgjx.,0 Mé1iاب日、ー(ᠮ\U0001F600語W")

type c12fontFaceKey struct {
	name  string
	strip int
	vr    bool
}

var c12fontFaces = map[c12fontFaceKey]*font.Face{}
var c12fontHb = map[*font.Face]*harfbuzz.Font{}

func c12fontFace(name string, strip int, vr bool) (*font.Face, error) {
	key := c12fontFaceKey{name, strip, vr}
	if f, ok := c12fontFaces[key]; ok {
		return f, nil
	}
	base, err := c12convFace(name)
	if err != nil {
		return nil, err
	}
	f := font.NewFace(base.Font)
	if vr {
		f.SetVariations([]font.Variation{{Tag: ot.MustNewTag("wght"), Value: 633}, {Tag: ot.MustNewTag("wdth"), Value: 87}})
	}
	if strip != 0 {
		f = f.VerifStripMetrics(strip&1 != 0, strip&2 != 0, strip&4 != 0)
	}
	c12fontFaces[key] = f
	return f, nil
}

func c12Bits(f float32) string { return vh.Z(int64(math.Float32bits(f))) }

func c12Finite(fs ...float32) bool {
	for _, f := range fs {
		if math.IsNaN(float64(f)) || math.IsInf(float64(f), 0) {
			return false
		}
	}
	return true
}

func c12Ext3(e font.FontExtents) string {
	return vh.Tuple(c12Bits(e.Ascender), c12Bits(e.Descender), c12Bits(e.LineGap))
}

func c12Pair(x, y int32) string { return vh.Tuple(vh.Z(int64(x)), vh.Z(int64(y))) }

// c12FaceData prints what the face answers for the given glyphs: hext, vext, vmetrics, the glyph table.
func c12FaceData(face *font.Face, gids []harfbuzz.GID) (hext, vext, vm, gl string, ok bool) {
	he, hok := face.FontHExtents()
	ve, vok := face.FontVExtents()
	ok = c12Finite(he.Ascender, he.Descender, he.LineGap, ve.Ascender, ve.Descender, ve.LineGap)
	hext = vh.Tuple(c12Ext3(he), vh.Bool(hok))
	vext = vh.Tuple(c12Ext3(ve), vh.Bool(vok))
	vm = vh.Bool(face.HasVerticalMetrics())
	seen := map[harfbuzz.GID]bool{}
	var rows []string
	for _, g := range gids {
		if seen[g] {
			continue
		}
		seen[g] = true
		ha, va := face.HorizontalAdvance(g), face.VerticalAdvance(g)
		hx, hy, hf := face.GlyphHOrigin(g)
		vx, vy, vf := face.GlyphVOrigin(g)
		es := "None"
		if e, eok := face.GlyphExtents(g); eok {
			es = vh.Some(vh.Tuple(c12Bits(e.XBearing), c12Bits(e.YBearing), c12Bits(e.Width), c12Bits(e.Height)))
			ok = ok && c12Finite(e.XBearing, e.YBearing, e.Width, e.Height)
		}
		ok = ok && c12Finite(ha, va)
		rows = append(rows, vh.App("mkGF", vh.Z(int64(g)), c12Bits(ha), c12Bits(va),
			vh.Tuple(vh.Z(int64(hx)), vh.Z(int64(hy)), vh.Bool(hf)), vh.Tuple(vh.Z(int64(vx)), vh.Z(int64(vy)), vh.Bool(vf)), es))
	}
	return hext, vext, vm, vh.List(rows), ok
}

const c12fontEmpty = "(CScale 0 0 0 0 1 0 0 0 0 0 0 0 0)"

// the amd64 behaviour the model follows for float -> int32 conversions outside int32
func c12fontProbe() bool {
	big, nan := float32(3e9), float32(math.NaN())
	return harfbuzz.VerifRoundf(big) == math.MinInt32 && harfbuzz.VerifRoundf(-big) == math.MinInt32 && harfbuzz.VerifRoundf(nan) == math.MinInt32
}

var c12fontProbed, c12fontProbeOK bool

func c12fontRun(o *vh.Out, inAny any) {
	in := inAny.(c12fontInput)
	if !c12fontProbed {
		c12fontProbed, c12fontProbeOK = true, c12fontProbe()
	}
	if !c12fontProbeOK {
		idx := o.Add(in, c12fontEmpty, "", "probe")
		o.Fail(idx, "setup", "float -> int32 conversion outside int32 does not give MinInt32 on this machine: the model assumes amd64")
		return
	}
	if in.Kind == "scale" {
		c12fontRunScale(o, in)
		return
	}
	face, err := c12fontFace(in.Font, in.Strip, in.Var)
	if err != nil {
		idx := o.Add(in, c12fontEmpty, "", "font missing")
		o.Fail(idx, "setup", err.Error())
		return
	}
	hf, ok := c12fontHb[face]
	if !ok {
		hf = harfbuzz.NewFont(face)
		c12fontHb[face] = hf
	}
	fresh := hf.VerifUpem() // NewFont's value is restored after every case
	newUpem, newX, newY := fresh, hf.XScale, hf.YScale
	defer func() { hf.VerifSetUpem(fresh); hf.XScale, hf.YScale = fresh, fresh }()
	if newX != fresh || newY != fresh || fresh != int32(face.Upem()) {
		idx := o.Add(in, c12fontEmpty, "", "NewFont")
		o.Fail(idx, "oracle", fmt.Sprintf("NewFont: faceUpem %d XScale %d YScale %d, face upem %d", fresh, newX, newY, face.Upem()))
		return
	}
	upem := in.Upem
	if upem == 0 {
		upem = fresh
	}
	hf.VerifSetUpem(upem)
	hf.XScale, hf.YScale = in.XScale, in.YScale
	var gids []harfbuzz.GID
	for _, g := range in.Glyphs {
		if g < 0 {
			gid, _ := face.NominalGlyph(c12fontRunes[(-g-1)%len(c12fontRunes)])
			gids = append(gids, gid)
		} else {
			gids = append(gids, harfbuzz.GID(g))
		}
	}
	hext, vext, vm, gl, finite := c12FaceData(face, gids)
	if !finite {
		idx := o.Add(in, c12fontEmpty, "", "non-finite face value")
		o.Fail(idx, "setup", "the face returned a non-finite float32")
		return
	}
	dir := harfbuzz.Direction(in.Dir)
	var fe []string
	for _, d := range []harfbuzz.Direction{4, 5, 6, 7, dir} {
		e := hf.ExtentsForDirection(d)
		if !c12Finite(e.Ascender, e.Descender, e.LineGap) {
			idx := o.Add(in, c12fontEmpty, "", "non-finite font extents")
			o.Fail(idx, "oracle", fmt.Sprintf("ExtentsForDirection(%d) not finite: %v", d, e))
			return
		}
		fe = append(fe, vh.Tuple(vh.Zi(int(d)), c12Ext3(e)))
	}
	hfb := hf.VerifHExtentsWithFallback()
	var gr []string
	for _, g := range gids {
		ax, ay := hf.GlyphAdvanceForDirection(g, dir)
		hox, hoy := hf.VerifGlyphHOrigin(g)
		vox, voy := hf.VerifGlyphVOrigin(g)
		dox, doy := hf.VerifGlyphOriginForDirection(g, dir)
		gx, gy := hf.VerifGuessVOriginMinusHOrigin(g)
		es := "None"
		if e, eok := hf.GlyphExtents(g); eok {
			es = vh.Some(vh.Tuple(vh.Z(int64(e.XBearing)), vh.Z(int64(e.YBearing)), vh.Z(int64(e.Width)), vh.Z(int64(e.Height))))
		}
		sdx, sdy := hf.VerifSubtractGlyphOriginForDirection(g, dir, in.PX, in.PY)
		shx, shy := hf.VerifSubtractGlyphHOrigin(g, in.PX, in.PY)
		svx, svy := hf.VerifSubtractGlyphVOrigin(g, in.PX, in.PY)
		ahx, ahy := hf.VerifAddGlyphHOrigin(g, in.PX, in.PY)
		gr = append(gr, vh.App("mkGR", vh.Z(int64(g)), vh.Z(int64(hf.GlyphHAdvance(g))), vh.Z(int64(hf.VerifGlyphVAdvance(g))),
			c12Pair(ax, ay), c12Pair(hox, hoy), c12Pair(vox, voy), c12Pair(dox, doy), c12Pair(gx, gy), es,
			c12Pair(sdx, sdy), c12Pair(shx, shy), c12Pair(svx, svy), c12Pair(ahx, ahy)))
	}
	coq := vh.App("CFace", hext, vext, vm, gl, vh.Z(int64(newUpem)), vh.Z(int64(upem)), vh.Z(int64(in.XScale)), vh.Z(int64(in.YScale)),
		vh.Zi(in.Dir), vh.Z(int64(in.PX)), vh.Z(int64(in.PY)), vh.List(fe), c12Ext3(hfb), vh.Z(int64(hf.VerifHExtentsAscender())), vh.List(gr))
	_, hok := face.FontHExtents()
	_, vok := face.FontVExtents()
	o.Add(in, coq, coq, "face", "face font="+in.Font, fmt.Sprintf("face hext=%v vext=%v vmetrics=%v", hok, vok, face.HasVerticalMetrics()),
		fmt.Sprintf("face var=%v", len(face.Coords()) != 0), fmt.Sprintf("face scale-in-range=%v", c12fontInRange(in.XScale) && in.XScale == in.YScale),
		fmt.Sprintf("face dir=%d", in.Dir))
}

func c12fontInRange(s int32) bool { return s >= 64 && s <= 4096*64 && s%64 == 0 }

func c12fontRunScale(o *vh.Out, in c12fontInput) {
	v := math.Float32frombits(in.VBits)
	if !c12Finite(v) || in.Upem == 0 {
		idx := o.Add(in, c12fontEmpty, "", "bad input")
		o.Fail(idx, "setup", "non-finite value or zero upem in a stored input")
		return
	}
	face, err := c12convFace("Roboto-Regular.ttf")
	if err != nil {
		idx := o.Add(in, c12fontEmpty, "", "font missing")
		o.Fail(idx, "setup", err.Error())
		return
	}
	hf, ok := c12fontHb[face]
	if !ok {
		hf = harfbuzz.NewFont(face)
		c12fontHb[face] = hf
	}
	fresh := hf.VerifUpem()
	defer func() { hf.VerifSetUpem(fresh); hf.XScale, hf.YScale = fresh, fresh }()
	hf.VerifSetUpem(in.Upem)
	hf.XScale, hf.YScale = in.XScale, in.YScale
	fx, fy, fxn := hf.VerifEmScalefX(v), hf.VerifEmScalefY(v), hf.VerifEmScalefX(-v)
	if fx != harfbuzz.VerifEmScalef(v, in.XScale, in.Upem) {
		idx := o.Add(in, c12fontEmpty, "", "emScalefX")
		o.Fail(idx, "oracle", "emScalefX differs from emScalef at the font's own XScale and upem")
		return
	}
	ffx, ffy := hf.VerifEmFscaleX(in.V16), hf.VerifEmFscaleY(in.V16)
	if !c12Finite(ffx, ffy) || ffx != harfbuzz.VerifEmFscale(in.V16, in.XScale, in.Upem) {
		idx := o.Add(in, c12fontEmpty, "", "emFscale")
		o.Fail(idx, "oracle", "emFscaleX not finite or different from emFscale at the font's own XScale and upem")
		return
	}
	coq := vh.App("CScale", vh.Z(int64(in.VBits)), vh.Z(int64(in.V16)), vh.Z(int64(in.XScale)), vh.Z(int64(in.YScale)), vh.Z(int64(in.Upem)),
		vh.Z(int64(fx)), vh.Z(int64(fy)), vh.Z(int64(fxn)), vh.Z(int64(harfbuzz.VerifRoundf(v))),
		vh.Z(int64(hf.VerifEmScaleX(in.V16))), vh.Z(int64(hf.VerifEmScaleY(in.V16))), c12Bits(ffx), c12Bits(ffy))
	integral := float64(v) == math.Trunc(float64(v))
	o.Add(in, coq, coq, "scale", fmt.Sprintf("scale integral-value=%v", integral), fmt.Sprintf("scale scale-in-range=%v", c12fontInRange(in.XScale)),
		fmt.Sprintf("scale upem-in-face-range=%v", in.Upem >= 16 && in.Upem <= 16384),
		fmt.Sprintf("scale int16-product-overflows=%v", int64(in.V16)*int64(in.XScale) != int64(int32(int64(in.V16)*int64(in.XScale)))))
}

// ---- c12pos ----------------------------------------------------------------------------------------------------

type c12posInput struct {
	Font   string `json:"font"`
	Strip  int    `json:"strip,omitempty"`
	Str    string `json:"str"`
	Dir    int    `json:"dir"` // harfbuzz direction 4..7
	Scale  int32  `json:"scale"`
	YScale int32  `json:"yscale"`
	Flags  int    `json:"flags,omitempty"`
	Invis  int    `json:"invis,omitempty"`
}

func init() {
	drivers["c12pos"] = &driver{
		header: "From TV Require Import Check.C12font.",
		shard:  30,
		n: func(tier string) int {
			if tier == "quick" {
				return 300
			}
			return 5000
		},
		decode: func(raw json.RawMessage) (any, error) {
			var in c12posInput
			err := json.Unmarshal(raw, &in)
			return in, err
		},
		gen: c12posGen,
		run: c12posRun,
	}
}

// fonts without GPOS / kern / AAT first (the whole of position() is compared there), then fonts with GPOS
var c12posFonts = []string{"u:common/Go-Mono-Bold-Italic.ttf", "u:common/LiberationMono-Italic.ttf", "u:common/Lmmono-italic.otf",
	"u:toys/CBLC1.ttf", "u:common/SourceSans-VF.ttf", "u:toys/Sbix1.ttf", "u:toys/CFFTest.otf",
	"Roboto-Regular.ttf", "Amiri-Regular.ttf", "UbuntuMono-R.ttf", "u:common/mplus-1p-regular.ttf", "u:common/NotoSansMongolian-Regular.ttf"}

var c12posTexts = []string{
	"Hello world", "a b  c", "éà x̂̃y", "a b c d e", "1 2 3 4 5", "x​y‌z­w⁠",
	"éà̂", "́a", "مَرْحَبًا", "abc تثذ", "日本語、テキスト。", "ᠮᠣᠩᠭᠣᠯ", "fi ffl", "A", " ", " ", "שָׁלוֹם",
	"x　y z w ", "￿͸a",
	"กิ่น้ำ ป่า", "ကြိုမြန်", "བོད་སྐད", "a\u200b\u200cb\u034fc",
}

func c12posGen(r *vh.Rand, tier string, n int, emit func(any)) {
	for i := 0; i < n; i++ {
		in := c12posInput{Str: c12posTexts[i%len(c12posTexts)], Dir: []int{4, 5, 6, 7}[r.Intn(4)], Scale: c12fontScale(r)}
		in.Font = c12posFonts[r.Intn(len(c12posFonts))]
		if r.Chance(60) {
			in.Font = c12posFonts[r.Intn(7)]
		}
		if r.Chance(70) && !c12fontInRange(in.Scale) {
			in.Scale = int32(64 * r.Range(1, 4096))
		}
		in.YScale = in.Scale
		if r.Chance(10) {
			in.YScale = c12fontScale(r)
		}
		if r.Chance(25) {
			in.Strip = r.Range(1, 7)
		}
		if r.Chance(15) {
			in.Flags = []int{int(harfbuzz.PreserveDefaultIgnorables), int(harfbuzz.RemoveDefaultIgnorables), int(harfbuzz.Bot | harfbuzz.Eot)}[r.Intn(3)]
		}
		if r.Chance(15) {
			in.Invis = r.Range(1, 40)
		}
		emit(in)
	}
}

const c12posEmpty = "(CPos ((0,0,0),false) ((0,0,0),false) false [] 1 0 0 4 [] false (mkSC 0 [] None) (mkPlan false 0 false false) (mkFl false false false) false [] [] [] [])"

func c12posScript(runes []rune) language.Script {
	for _, r := range runes {
		if s := language.LookupScript(r); s != language.Common && s != language.Inherited && s != language.Unknown {
			return s
		}
	}
	return language.Latin
}

func c12PP(p harfbuzz.GlyphPosition) string {
	return vh.App("mkPP", vh.Z(int64(p.XAdvance)), vh.Z(int64(p.YAdvance)), vh.Z(int64(p.XOffset)), vh.Z(int64(p.YOffset)))
}

var c12posHb = map[*font.Face]*harfbuzz.Font{}

func c12posRun(o *vh.Out, inAny any) {
	in := inAny.(c12posInput)
	face, err := c12fontFace(in.Font, in.Strip, false)
	if err != nil {
		idx := o.Add(in, c12posEmpty, "", "font missing")
		o.Fail(idx, "setup", err.Error())
		return
	}
	hf, ok := c12posHb[face]
	if !ok {
		hf = harfbuzz.NewFont(face)
		c12posHb[face] = hf
	}
	hf.XScale, hf.YScale = in.Scale, in.YScale
	runes := []rune(in.Str)
	mk := func() *harfbuzz.Buffer {
		b := harfbuzz.NewBuffer()
		b.AddRunes(runes, 0, len(runes))
		b.Props.Direction = harfbuzz.Direction(in.Dir)
		b.Props.Script = c12posScript(runes)
		b.Props.Language = language.NewLanguage("en")
		b.Flags = harfbuzz.ShappingOptions(in.Flags)
		b.Invisible = harfbuzz.GID(in.Invis)
		return b
	}
	var (
		tr       harfbuzz.VerifPosTrace
		panicked any
	)
	b1, b2 := mk(), mk()
	func() {
		defer func() { panicked = recover() }()
		tr = b1.VerifPositionStages(hf, nil)
		b2.Shape(hf, nil)
	}()
	if panicked != nil {
		idx := o.Add(in, c12posEmpty, "", "panic")
		o.Fail(idx, "panic", fmt.Sprint(panicked))
		return
	}
	// the hook's copy of the statements around position() must leave what Buffer.Shape leaves
	if !reflect.DeepEqual(b1.Pos, b2.Pos) || len(b1.Info) != len(b2.Info) || b1.Props != b2.Props {
		idx := o.Add(in, c12posEmpty, "", "hook drift")
		o.Fail(idx, "setup", "VerifPositionStages and Buffer.Shape leave different buffers")
		return
	}
	for i := range b1.Info {
		if b1.Info[i].Glyph != b2.Info[i].Glyph || b1.Info[i].Cluster != b2.Info[i].Cluster || b1.Info[i].Mask != b2.Info[i].Mask {
			idx := o.Add(in, c12posEmpty, "", "hook drift")
			o.Fail(idx, "setup", "VerifPositionStages and Buffer.Shape leave different buffers")
			return
		}
	}
	gids := make([]harfbuzz.GID, 0, len(tr.Glyphs)+12)
	infos := make([]string, len(tr.Glyphs))
	marks, ignorables, spaces := 0, 0, 0
	umarks := make([]bool, len(tr.Glyphs))
	for i, g := range tr.Glyphs {
		gids = append(gids, g.Glyph)
		infos[i] = vh.App("mkPI", vh.Z(int64(g.Glyph)), vh.Bool(g.Mark), vh.Bool(g.Ignorable), vh.Bool(g.Space), vh.Zi(int(g.SpaceType)))
		if g.Mark {
			marks++
		}
		umarks[i] = g.UMark
		if g.Ignorable {
			ignorables++
		}
		if g.Space && g.SpaceType != 0 {
			spaces++
		}
	}
	var digits []string
	for u := '0'; u <= '9'; u++ {
		if g, ok := face.NominalGlyph(u); ok {
			digits = append(digits, vh.Z(int64(g)))
			gids = append(gids, g)
		}
	}
	punct := "None"
	if g, ok := face.NominalGlyph('.'); ok {
		punct = vh.Some(vh.Z(int64(g)))
		gids = append(gids, g)
	} else if g, ok := face.NominalGlyph(','); ok {
		punct = vh.Some(vh.Z(int64(g)))
		gids = append(gids, g)
	}
	hext, vext, vm, gl, finite := c12FaceData(face, gids)
	if !finite {
		idx := o.Add(in, c12posEmpty, "", "non-finite face value")
		o.Fail(idx, "setup", "the face returned a non-finite float32")
		return
	}
	// plan.position does nothing: no GPOS, kerx, kern, trak, morx; the fallback kerning (always planned without GPOS)
	// has no kern table to read
	noop := !(tr.ApplyGpos || tr.ApplyKerx || tr.ApplyKern || tr.ApplyTrak || tr.ApplyMorx) && (!tr.ApplyFallbackKern || len(face.Kern) == 0)
	dflt, final := make([]string, len(tr.Default)), make([]string, len(tr.Final))
	for i, p := range tr.Default {
		dflt[i] = c12PP(p)
	}
	for i, p := range tr.Final {
		final[i] = c12PP(p)
	}
	fg := make([]string, len(tr.FinalInfo))
	for i, g := range tr.FinalInfo {
		fg[i] = vh.Z(int64(g))
	}
	coq := vh.App("CPos", hext, vext, vm, gl, vh.Z(int64(hf.VerifUpem())), vh.Z(int64(in.Scale)), vh.Z(int64(in.YScale)), vh.Zi(int(tr.Dir)),
		vh.List(infos), vh.Bool(tr.SpaceFallback),
		vh.App("mkSC", vh.Z(int64(tr.Invisible)), vh.List(digits), punct),
		vh.App("mkPlan", vh.Bool(tr.ZeroMarks), vh.Zi(int(tr.MarkBehavior)), vh.Bool(tr.AdjustMarks), vh.Bool(tr.FallbackMarks)),
		vh.App("mkFl", vh.Bool(tr.HasDefaultIgnorables), vh.Bool(tr.Flags&harfbuzz.PreserveDefaultIgnorables != 0), vh.Bool(tr.Flags&harfbuzz.RemoveDefaultIgnorables != 0)),
		vh.Bool(noop), vh.BoolList(umarks), vh.List(dflt), vh.List(final), vh.List(fg))
	key := ""
	if len(tr.Glyphs) > 0 {
		key = coq
	}
	o.Add(in, coq, key, "pos", "pos font="+in.Font, fmt.Sprintf("pos dir=%d", tr.Dir), fmt.Sprintf("pos noop-plan=%v", noop),
		fmt.Sprintf("pos marks=%v", marks > 0), fmt.Sprintf("pos default-ignorables=%v", ignorables > 0),
		fmt.Sprintf("pos fallback-spaces=%v", tr.SpaceFallback && spaces > 0), fmt.Sprintf("pos zero-marks=%v behavior=%d fallback-marks=%v", tr.ZeroMarks, tr.MarkBehavior, tr.FallbackMarks),
		fmt.Sprintf("pos vmetrics=%v", face.HasVerticalMetrics()))
}
