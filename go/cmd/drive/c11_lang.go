package main

import (
	"encoding/json"
	"fmt"

	"github.com/go-text/typesetting/fontscan"
	"github.com/go-text/typesetting/language"

	"verifharness/internal/vh"
)

// ---- c11lang: newLangsetFromCoverage / LangSet, scriptsFromRanges, ScriptSet.insert / contains ----

type c11LangInput struct {
	Kind   string     `json:"kind"`             // lang | scr | ss
	Langs  []int      `json:"langs,omitempty"`  // the coverage starts as the union of the rune sets of these languages
	Del    []int64    `json:"del,omitempty"`    // then these runes are deleted
	Add    []int64    `json:"add,omitempty"`    // and these added
	Probes []int64    `json:"probes,omitempty"` // LangIDs for LangSet.Contains
	Ranges [][2]int64 `json:"ranges,omitempty"`
	SS     []uint32   `json:"ss,omitempty"`
	S      uint32     `json:"s,omitempty"`
}

func init() {
	drivers["c11lang"] = &driver{
		header: "From TV Require Import Check.C11Lang.",
		shard:  40,
		n: func(tier string) int {
			if tier == "quick" {
				return 400
			}
			return 8000
		},
		decode: func(raw json.RawMessage) (any, error) {
			var in c11LangInput
			err := json.Unmarshal(raw, &in)
			return in, err
		},
		gen: c11LangGen,
		run: c11LangRun,
	}
}

// c11RunesOf enumerates the runes of a rune set through its pages.
func c11RunesOf(rs fontscan.RuneSet) []int64 {
	var out []int64
	for _, p := range fontscan.VerifPages(rs) {
		for w, word := range p.Set {
			for b := 0; b < 32; b++ {
				if word&(1<<uint(b)) != 0 {
					out = append(out, int64(p.Ref)<<8|int64(w)<<5|int64(b))
				}
			}
		}
	}
	return out
}

func c11LangGen(r *vh.Rand, tier string, n int, emit func(any)) {
	tab := fontscan.VerifLanguagesRunes()
	var scripts []uint32
	seen := map[uint32]bool{}
	for _, sr := range language.ScriptRanges {
		if !seen[uint32(sr.Script)] {
			seen[uint32(sr.Script)] = true
			scripts = append(scripts, uint32(sr.Script))
		}
	}
	scripts = append(scripts, uint32(language.Unknown), 0, 0xffffffff)
	for i := 0; i < n; i++ {
		switch k := r.Intn(10); {
		case k < 4:
			in := c11LangInput{Kind: "lang"}
			for j := r.Range(0, 4); j > 0; j-- {
				in.Langs = append(in.Langs, r.Intn(len(tab)))
			}
			var all []int64
			for _, l := range in.Langs {
				all = append(all, c11RunesOf(tab[l])...)
			}
			if len(all) > 0 {
				for j := []int{0, 0, 1, 2, r.Range(1, 30)}[r.Intn(5)]; j > 0; j-- {
					in.Del = append(in.Del, all[r.Intn(len(all))])
				}
				if r.Chance(10) { // empty a whole page: Delete leaves an all-zero page behind
					ref := all[r.Intn(len(all))] >> 8
					for _, x := range all {
						if x>>8 == ref {
							in.Del = append(in.Del, x)
						}
					}
				}
			}
			for j := []int{0, 0, 1, r.Range(1, 20)}[r.Intn(4)]; j > 0; j-- {
				in.Add = append(in.Add, c11Rune(r, []int64{0x41, 0x400, 0x3040, 0x10000}))
			}
			if r.Chance(8) { // a large coverage: Latin, Cyrillic, Greek ... blocks
				for x := int64(0x20); x < 0x530; x++ {
					in.Add = append(in.Add, x)
				}
			}
			in.Probes = []int64{0, 1, int64(len(tab)) - 1, int64(len(tab)), 511, 512, 513, 0xffff}
			for _, l := range in.Langs {
				in.Probes = append(in.Probes, int64(l), int64(l)+512)
			}
			emit(in)
		case k < 8:
			in := c11LangInput{Kind: "scr", Ranges: c11Ranges(r)}
			if r.Chance(60) { // ranges placed around the boundaries of language.ScriptRanges
				in.Ranges = nil
				cur := int64(-1)
				idx := r.Intn(len(language.ScriptRanges))
				for j := r.Range(1, 5); j > 0 && idx < len(language.ScriptRanges); j-- {
					sr := language.ScriptRanges[idx]
					a := []int64{int64(sr.Start), int64(sr.Start) - 1, int64(sr.End), int64(sr.End) + 1, int64(sr.Start) + 1}[r.Intn(5)]
					if a <= cur {
						a = cur + 1
					}
					b := a + []int64{0, 0, 1, int64(sr.End) - int64(sr.Start), int64(r.Range(0, 300))}[r.Intn(5)]
					if b < a {
						b = a
					}
					in.Ranges = append(in.Ranges, [2]int64{a, b})
					cur = b
					idx += r.Range(0, 3)
					for idx < len(language.ScriptRanges) && int64(language.ScriptRanges[idx].End) <= cur {
						idx++
					}
				}
				if r.Chance(15) { // beyond the last script range
					last := int64(language.ScriptRanges[len(language.ScriptRanges)-1].End)
					a := last + int64(r.Range(-2, 3))
					if a <= cur {
						a = cur + 1
					}
					in.Ranges = append(in.Ranges, [2]int64{a, a + int64(r.Range(0, 5))})
				}
			}
			emit(in)
		default:
			in := c11LangInput{Kind: "ss", S: scripts[r.Intn(len(scripts))]}
			set := map[uint32]bool{}
			for j := r.Range(0, 8); j > 0; j-- {
				set[scripts[r.Intn(len(scripts))]] = true
			}
			for s := range set {
				in.SS = append(in.SS, s)
			}
			for a := 1; a < len(in.SS); a++ { // sorted, as every ScriptSet built by insert is
				for b := a; b > 0 && in.SS[b] < in.SS[b-1]; b-- {
					in.SS[b], in.SS[b-1] = in.SS[b-1], in.SS[b]
				}
			}
			if r.Chance(50) && len(in.SS) > 0 {
				in.S = in.SS[r.Intn(len(in.SS))]
			}
			emit(in)
		}
	}
}

func c11U32List(l []uint32) string {
	w := make([]int64, len(l))
	for i, x := range l {
		w[i] = int64(x)
	}
	return vh.ZList(w)
}

func c11LangRun(o *vh.Out, inAny any) {
	in := inAny.(c11LangInput)
	classes := []string{"kind=" + in.Kind}
	var coq, key string
	var panicked any
	func() {
		defer func() { panicked = recover() }()
		switch in.Kind {
		case "lang":
			tab := fontscan.VerifLanguagesRunes()
			var rs fontscan.RuneSet
			for _, l := range in.Langs {
				for _, x := range c11RunesOf(tab[l]) {
					rs.Add(rune(x))
				}
			}
			for _, x := range in.Del {
				rs.Delete(rune(x))
			}
			for _, x := range in.Add {
				rs.Add(rune(x))
			}
			ls := fontscan.VerifLangsetFromCoverage(rs)
			words := make([]string, 8)
			nlang := 0
			for i, w := range ls {
				words[i] = fmt.Sprint(w)
				for b := 0; b < 64; b++ {
					if w&(1<<uint(b)) != 0 {
						nlang++
					}
				}
			}
			probes := make([]string, len(in.Probes))
			for i, p := range in.Probes {
				probes[i] = vh.Tuple(vh.Z(p), vh.Bool(ls.Contains(fontscan.LangID(p))))
			}
			coq = vh.App("CLang", c11PagesTerm(fontscan.VerifPages(rs)), vh.List(words), vh.List(probes))
			classes = append(classes, fmt.Sprintf("langs=%d", bucket(nlang)))
			if len(rs) > 0 {
				key = coq
			}
		case "scr":
			rg := make([][2]rune, len(in.Ranges))
			for i, ra := range in.Ranges {
				rg[i] = [2]rune{rune(ra[0]), rune(ra[1])}
			}
			out := fontscan.VerifScriptsFromRanges(rg)
			sc := make([]uint32, len(out))
			for i, s := range out {
				sc[i] = uint32(s)
				if s == language.Unknown {
					o.Count("scr_has_unknown")
				}
			}
			coq = vh.App("CScr", c11PairsTerm(in.Ranges), c11U32List(sc))
			classes = append(classes, fmt.Sprintf("scripts=%d", bucket(len(out))))
			if len(in.Ranges) > 0 {
				key = coq
			}
		default:
			ss := make([]language.Script, len(in.SS))
			for i, s := range in.SS {
				ss[i] = language.Script(s)
			}
			out := fontscan.VerifScriptSetInsert(ss, language.Script(in.S))
			sc := make([]uint32, len(out))
			for i, s := range out {
				sc[i] = uint32(s)
			}
			coq = vh.App("CSS", c11U32List(in.SS), vh.Z(int64(in.S)), c11U32List(sc), vh.Bool(fontscan.VerifScriptSetContains(ss, language.Script(in.S))))
			key = coq
		}
	}()
	if panicked != nil {
		idx := o.Add(in, "(CSS [] 0 [] true)", "", append(classes, "go-panic")...)
		o.Fail(idx, "panic", fmt.Sprint(panicked))
		return
	}
	o.Add(in, coq, key, classes...)
}
