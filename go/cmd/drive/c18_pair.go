package main

import (
	"encoding/json"
	"fmt"

	hb "github.com/go-text/typesetting/harfbuzz"

	"verifharness/internal/vh"
)

// ---- c18pair: the real GPOS pair positioning (applyGPOS case PairPos, applyGPOSPair1 / applyGPOSPair2,
// applyGPOSValueRecord) run through the real lookup loop on a real Buffer with synthetic PairPos subtables, against
// Model/PairPos.v; plus the cut statement of C18 on the implementation's own outputs. ----------

type p18Pair struct {
	A  int    `json:"a"` // first glyph / class1
	B  int    `json:"b"` // second glyph / class2
	V1 [6]int `json:"v1"`
	V2 [6]int `json:"v2"`
}

type p18Lookup struct {
	Flag   uint16    `json:"flag"`
	Mask   uint32    `json:"mask"`
	Format int       `json:"format"`
	VF1    uint16    `json:"vf1"`
	VF2    uint16    `json:"vf2"`
	Pairs  []p18Pair `json:"pairs"`
	Cov    []int     `json:"cov,omitempty"`
	Cls1   [][2]int  `json:"cls1,omitempty"`
	Cls2   [][2]int  `json:"cls2,omitempty"`
	NC1    int       `json:"nc1,omitempty"`
	NC2    int       `json:"nc2,omitempty"`
}

type p18Input struct {
	Items   []e18Item   `json:"items"`
	Rec     bool        `json:"rec"`
	Level   int         `json:"level"`
	Dir     int         `json:"dir"`
	Ppem    int         `json:"ppem"`
	Lookups []p18Lookup `json:"lookups"`
}

func init() {
	drivers["c18pair"] = &driver{
		header: "From TV Require Import Check.C18Pair.",
		shard:  60,
		n: func(tier string) int {
			if tier == "quick" {
				return 600
			}
			return 6000
		},
		decode: func(raw json.RawMessage) (any, error) {
			var in p18Input
			err := json.Unmarshal(raw, &in)
			return in, err
		},
		gen: p18Gen,
		run: p18Run,
	}
}

func p18Apply(in p18Input, items []e18Item) ([]e18Item, bool, string) {
	vb := e18ToVerif(e18Input{Level: in.Level, Rec: in.Rec, Dir: in.Dir}, items)
	ls := make([]hb.VerifPairLookup, len(in.Lookups))
	for i, l := range in.Lookups {
		v := hb.VerifPairLookup{Flag: l.Flag, Mask: l.Mask, Format: l.Format, VF1: l.VF1, VF2: l.VF2, Cov: l.Cov,
			Class1: l.Cls1, Class2: l.Cls2, NC1: l.NC1, NC2: l.NC2}
		for _, p := range l.Pairs {
			v.Pairs = append(v.Pairs, hb.VerifPair{First: p.A, Second: p.B, V1: p.V1, V2: p.V2})
		}
		ls[i] = v
	}
	out, msg := hb.VerifApplyPairPos(vb, ls, uint16(in.Ppem))
	return e18FromVerif(out), out.HasGlyphFlags, msg
}

func p18CoqVal(v [6]int, ppem int) string {
	d := 0
	if ppem != 0 {
		d = int(int8(v[5])) * (1024 / ppem) // DeviceHinting.GetDelta: pixels * (scale / ppem)
	}
	return vh.App("V", vh.Zi(int(int16(v[0]))), vh.Zi(int(int16(v[1]))), vh.Zi(int(int16(v[2]))), vh.Zi(int(int16(v[3]))), vh.Zi(v[4]), vh.Zi(d))
}

func p18CoqPairs(ps [][2]int) string {
	e := make([]string, len(ps))
	for i, p := range ps {
		e[i] = vh.Tuple(vh.Zi(p[0]), vh.Zi(p[1]))
	}
	return vh.List(e)
}

func p18CoqLookups(in p18Input) string {
	horiz := in.Dir == 4 || in.Dir == 5
	ls := make([]string, len(in.Lookups))
	for i, l := range in.Lookups {
		ps := make([]string, len(l.Pairs))
		for j, p := range l.Pairs {
			ps[j] = vh.Tuple(vh.Zi(p.A), vh.Zi(p.B), p18CoqVal(p.V1, in.Ppem), p18CoqVal(p.V2, in.Ppem))
		}
		ls[i] = vh.App("mkPP", vh.Zi(int(l.Flag)), vh.Zi(int(l.Mask>>3)), vh.Bool(horiz), vh.Bool(in.Ppem != 0), vh.Bool(l.Format == 2),
			vh.Zi(int(l.VF1)), vh.Zi(int(l.VF2)), vh.List(ps), vh.IntList(l.Cov), p18CoqPairs(l.Cls1), p18CoqPairs(l.Cls2))
	}
	return vh.List(ls)
}

func p18Run(o *vh.Out, inAny any) {
	in := inAny.(p18Input)
	out, orec, msg := p18Apply(in, in.Items)
	panicked := msg != ""
	var cuts []string
	ncut := 0
	if !panicked {
		for k := 1; k < len(in.Items); k++ {
			c, ok := e18CutCluster(in.Items, k)
			if !ok {
				continue
			}
			present, flagged := false, false
			for _, g := range out {
				if g.C == c {
					present = true
					if g.M&1 != 0 {
						flagged = true
					}
				}
			}
			if !present || flagged {
				continue
			}
			a, _, m1 := p18Apply(in, in.Items[:k])
			b, _, m2 := p18Apply(in, in.Items[k:])
			if m1 != "" || m2 != "" {
				panicked, msg = true, "piece: "+m1+m2
				break
			}
			cuts = append(cuts, vh.Tuple(fmt.Sprintf("%d%%nat", k), e18CoqItems(a), e18CoqItems(b)))
			ncut++
		}
	}
	coq := vh.App("mkPC", p18CoqLookups(in), e18CoqItems(in.Items), vh.Bool(in.Rec), e18CoqItems(out), vh.Bool(orec), vh.Bool(panicked), vh.List(cuts))
	changed := "same"
	if fmt.Sprint(out) != fmt.Sprint(in.Items) {
		changed = "changed"
	}
	key := ""
	if changed == "changed" || ncut > 0 {
		key = fmt.Sprintf("pair/%v/%v", in.Items, out)
	}
	classes := []string{"pair/" + changed}
	if ncut > 0 {
		classes = append(classes, "pair/cut")
	}
	if changed == "changed" {
		classes = append(classes, "nontrivial")
	}
	idx := o.Add(in, coq, key, classes...)
	if panicked {
		o.Fail(idx, "panic", msg)
	}
}

// a value record: mostly an X advance, sometimes zero, sometimes only a device delta
func p18Val(r *vh.Rand) [6]int {
	var v [6]int
	switch x := r.Intn(100); {
	case x < 20: // all zero
	case x < 32: // device delta only
		v[4], v[5] = 1, r.Range(-4, 4)
	case x < 40: // a device table whose delta is zero, nothing else
		v[4] = 1
	default:
		for j := 0; j < 4; j++ {
			if r.Chance(55) {
				v[j] = r.Range(-250, 250)
			}
		}
		if r.Chance(25) {
			v[4], v[5] = 1, r.Range(-4, 4)
		}
	}
	return v
}

func p18Format(r *vh.Rand, second bool) uint16 {
	if second && r.Chance(45) {
		return 0
	}
	if !second && r.Chance(8) {
		return 0
	}
	f := uint16(0)
	for _, b := range []uint16{1, 2, 4, 8, 0x40} {
		p := 35
		if b == 4 {
			p = 80
		}
		if b == 0x40 {
			p = 50
		}
		if r.Chance(p) {
			f |= b
		}
	}
	return f
}

func p18Gen(r *vh.Rand, tier string, n int, emit func(any)) {
	maxN := 6
	if tier != "quick" {
		maxN = 8
	}
	for i := 0; i < n; i++ {
		var in p18Input
		in.Items, in.Rec = e18Items(r, "pair", maxN)
		letters, _, all := e18Gids(in.Items)
		in.Level = r.Intn(2)
		in.Dir = []int{4, 4, 4, 4, 5, 6, 7}[r.Intn(7)]
		// the models of the cut theorem are for buffers in logical order; backward buffers are generated by e18Items
		in.Ppem = []int{0, 16, 16, 32}[r.Intn(4)]
		nl := r.Range(1, 3)
		for j := 0; j < nl; j++ {
			l := p18Lookup{Mask: []uint32{8, 8, 8, 8, 8, 16, 24, 24, 0}[r.Intn(9)], Flag: []uint16{0, 0, 0, 0, 8, 8, 8, 4, 2}[r.Intn(9)],
				Format: 1 + r.Intn(2), VF1: p18Format(r, false), VF2: p18Format(r, true)}
			first := func() int {
				if r.Chance(4) { // a glyph the iterator skips as the first glyph of a pair (cf. F61)
					return []int{30, 31, 32}[r.Intn(3)]
				}
				if r.Chance(6) {
					return e18Pick(r, all, 1, 7)
				}
				return e18Pick(r, letters, 1, 7)
			}
			// mostly two glyphs that follow each other in the input
			adjacent := func() (int, int) {
				if len(in.Items) >= 2 && r.Chance(88) {
					a := r.Intn(len(in.Items) - 1)
					b := a + 1
					for b+1 < len(in.Items) && in.Items[b].G >= 20 && r.Chance(70) {
						b++
					}
					if in.Items[a].G < 20 || r.Chance(5) {
						return in.Items[a].G, in.Items[b].G
					}
				}
				return first(), e18Pick(r, all, 1, 7)
			}
			if l.Format == 1 {
				np := r.Range(2, 10)
				for k := 0; k < np; k++ {
					a, b := adjacent()
					l.Pairs = append(l.Pairs, p18Pair{A: a, B: b, V1: p18Val(r), V2: p18Val(r)})
				}
			} else {
				l.NC1, l.NC2 = r.Range(1, 3), r.Range(1, 3)
				nc := r.Range(2, 6)
				for k := 0; k < nc; k++ {
					a, b := adjacent()
					l.Cov = append(l.Cov, a)
					if r.Chance(70) {
						l.Cls2 = append(l.Cls2, [2]int{b, r.Intn(l.NC2)})
					}
				}
				for k := r.Range(0, 5); k > 0; k-- {
					l.Cls1 = append(l.Cls1, [2]int{e18Pick(r, letters, 1, 7), r.Intn(l.NC1)})
				}
				for k := r.Range(1, 6); k > 0; k-- {
					l.Cls2 = append(l.Cls2, [2]int{e18Pick(r, all, 1, 7), r.Intn(l.NC2)})
				}
				for a := 0; a < l.NC1; a++ {
					for b := 0; b < l.NC2; b++ {
						if r.Chance(85) {
							l.Pairs = append(l.Pairs, p18Pair{A: a, B: b, V1: p18Val(r), V2: p18Val(r)})
						}
					}
				}
			}
			in.Lookups = append(in.Lookups, l)
		}
		emit(in)
	}
}
