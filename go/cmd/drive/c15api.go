package main

import (
	"encoding/json"
	"fmt"

	"github.com/go-text/typesetting/font"
	"github.com/go-text/typesetting/fontscan"

	"verifharness/internal/vh"
)

// Driver "c15api": the C15 property observed through the public API of fontscan.FontMap
// (AddFace + SetQuery + ResolveFace) on synthetic faces of one family.

type c15apiInput struct {
	Aspects []c15Aspect `json:"aspects"`
	Query   c15Aspect   `json:"query"`
}

// c15Cmap maps the single rune 'a'.
type c15Cmap struct{}
type c15CmapIter struct{ done bool }

func (c15Cmap) Iter() font.CmapIter { return &c15CmapIter{} }
func (c15Cmap) Lookup(r rune) (font.GID, bool) {
	if r == 'a' {
		return 1, true
	}
	return 0, false
}
func (it *c15CmapIter) Next() bool {
	if it.done {
		return false
	}
	it.done = true
	return true
}
func (it *c15CmapIter) Char() (rune, font.GID) { return 'a', 1 }

func init() {
	drivers["c15api"] = &driver{
		header: "From TV Require Import Check.C15api.",
		shard:  250,
		n: func(tier string) int {
			if tier == "quick" {
				return 1500
			}
			return 15000
		},
		decode: func(raw json.RawMessage) (any, error) {
			var in c15apiInput
			err := json.Unmarshal(raw, &in)
			return in, err
		},
		gen: c15apiGen,
		run: c15apiRun,
	}
}

func c15apiGen(r *vh.Rand, tier string, n int, emit func(any)) {
	// the description of a face may leave every field unset
	emit(c15apiInput{Aspects: []c15Aspect{{0, 0, 0}}, Query: c15Aspect{}})
	emit(c15apiInput{Aspects: []c15Aspect{{0, 0, 0}, {2, 5600, 8}}, Query: c15Aspect{2, 5600, 0}})
	for i := 0; i < n; i++ {
		ns, nw := r.Range(1, 3), r.Range(1, 4)
		var ps, pw []int64
		for j := 0; j < ns; j++ {
			ps = append(ps, c15Pick(r, c15Stretches))
		}
		for j := 0; j < nw; j++ {
			pw = append(pw, c15Pick(r, c15Weights))
		}
		k := r.Range(1, 5)
		as := make([]c15Aspect, k)
		for j := range as {
			as[j] = c15Aspect{uint8(r.Range(1, 2)), c15Pick(r, pw), c15Pick(r, ps)}
			if r.Chance(25) {
				as[j].Style = 0
			}
			if r.Chance(20) {
				as[j].W8 = 0
			}
			if r.Chance(20) {
				as[j].S8 = 0
			}
		}
		q := c15Aspect{uint8(r.Range(0, 2)), c15Pick(r, c15Weights), c15Pick(r, c15Stretches)}
		if r.Chance(20) {
			q.W8 = 0
		}
		if r.Chance(20) {
			q.S8 = 0
		}
		if r.Chance(40) {
			q.W8 = c15Pick(r, pw)
		}
		emit(c15apiInput{Aspects: as, Query: q})
	}
}

func c15apiRun(o *vh.Out, inAny any) {
	in := inAny.(c15apiInput)
	got := int64(-1)
	msg := ""
	func() {
		defer func() {
			if p := recover(); p != nil {
				got, msg = -2, fmt.Sprint(p)
			}
		}()
		fm := fontscan.NewFontMap(nil)
		faces := map[*font.Face]int{}
		for i, a := range in.Aspects {
			face := font.NewFace(&font.Font{Cmap: c15Cmap{}})
			faces[face] = i
			fm.AddFace(face, fontscan.Location{File: fmt.Sprintf("verif-%d", i)}, font.Description{Family: "verif", Aspect: a.aspect()})
		}
		fm.SetQuery(fontscan.Query{Families: []string{"verif"}, Aspect: in.Query.aspect()})
		if f := fm.ResolveFace('a'); f != nil {
			if i, ok := faces[f]; ok {
				got = int64(i)
			} else {
				got = -3
			}
		}
	}()
	as := make([]string, len(in.Aspects))
	unset := false
	for i, a := range in.Aspects {
		as[i] = c15Tuple(a)
		if a.Style == 0 || a.W8 == 0 || a.S8 == 0 {
			unset = true
		}
	}
	coq := vh.App("mkCase", vh.List(as), c15Tuple(in.Query), vh.Z(got))
	key := ""
	if len(in.Aspects) > 1 {
		key = coq
	}
	classes := []string{fmt.Sprintf("nfaces=%d", len(in.Aspects))}
	if unset {
		classes = append(classes, "description_has_unset_field")
	}
	if got == -2 {
		classes = append(classes, "panic")
	}
	o.Add(in, coq, key, classes...)
	_ = msg
}
