package main

import (
	"encoding/json"
	"fmt"

	hb "github.com/go-text/typesetting/harfbuzz"

	"verifharness/internal/vh"
)

// ---- c18multi: the real GSUB multiple substitution (applySubsSequence: replacement, multiplication, deletion with
// deleteGlyph and the hand-over of the glyph flags), run through the real lookup loop on a real Buffer with synthetic
// MultipleSubs tables, against Model/GsubMulti.v; plus the cut statement of C18 and the persistence of the flags on
// the implementation's own outputs (Check/C18Multi.v). ----------

type m18Seq struct {
	G   int   `json:"g"`
	Seq []int `json:"seq"`
}
type m18Lookup struct {
	Flag uint16   `json:"flag"`
	Mask uint32   `json:"mask"`
	Seqs []m18Seq `json:"seqs"`
}
type m18Input struct {
	Items   []e18Item   `json:"items"`
	Level   int         `json:"level"`
	Concat  bool        `json:"concat"`
	Lookups []m18Lookup `json:"lookups"`
}

func init() {
	drivers["c18multi"] = &driver{
		header: "From TV Require Import Check.C18Multi.",
		shard:  60,
		n: func(tier string) int {
			if tier == "quick" {
				return 600
			}
			return 6000
		},
		decode: func(raw json.RawMessage) (any, error) {
			var in m18Input
			err := json.Unmarshal(raw, &in)
			return in, err
		},
		gen: m18Gen,
		run: m18Run,
	}
}

func m18Apply(in m18Input, items []e18Item) ([]e18Item, string) {
	vb := e18ToVerif(e18Input{Level: in.Level, Concat: in.Concat, Dir: 4}, items)
	ls := make([]hb.VerifMultiLookup, len(in.Lookups))
	for i, l := range in.Lookups {
		v := hb.VerifMultiLookup{Flag: l.Flag, Mask: l.Mask}
		for _, s := range l.Seqs {
			v.Seqs = append(v.Seqs, hb.VerifSequence{Glyph: s.G, Seq: s.Seq})
		}
		ls[i] = v
	}
	out, msg := hb.VerifApplyGSUBMulti(vb, ls)
	return e18FromVerif(out), msg
}

func m18CoqLookups(ls []m18Lookup) string {
	e := make([]string, len(ls))
	for i, l := range ls {
		ss := make([]string, len(l.Seqs))
		for j, s := range l.Seqs {
			ss[j] = vh.Tuple(vh.Zi(s.G), vh.IntList(s.Seq))
		}
		e[i] = vh.App("mkGM", vh.Zi(int(l.Flag)), vh.Zi(int(l.Mask>>3)), vh.List(ss))
	}
	return vh.List(e)
}

// the cuts of the input along cluster values whose cluster is present and unflagged in the whole output, each run on
// the real function
func e18Cuts(items, out []e18Item, apply func([]e18Item) ([]e18Item, string)) (cuts []string, ncut int, msg string) {
	for k := 1; k < len(items); k++ {
		c, ok := e18CutCluster(items, k)
		if !ok {
			continue
		}
		present, flagged := false, false
		for _, g := range out {
			if g.C == c {
				present = true
				if g.M&1 != 0 {
					flagged = true
				}
			}
		}
		if !present || flagged {
			continue
		}
		a, m1 := apply(items[:k])
		b, m2 := apply(items[k:])
		if m1 != "" || m2 != "" {
			return cuts, ncut, "piece: " + m1 + m2
		}
		cuts = append(cuts, vh.Tuple(fmt.Sprintf("%d%%nat", k), e18CoqItems(a), e18CoqItems(b)))
		ncut++
	}
	return cuts, ncut, ""
}

func m18Run(o *vh.Out, inAny any) {
	in := inAny.(m18Input)
	out, msg := m18Apply(in, in.Items)
	panicked := msg != ""
	var cuts []string
	ncut := 0
	if !panicked {
		cuts, ncut, msg = e18Cuts(in.Items, out, func(x []e18Item) ([]e18Item, string) { return m18Apply(in, x) })
		panicked = msg != ""
	}
	coq := vh.App("mkMC", m18CoqLookups(in.Lookups), e18CoqItems(in.Items), e18CoqItems(out), vh.Bool(panicked), vh.List(cuts))
	changed := "same"
	if fmt.Sprint(out) != fmt.Sprint(in.Items) {
		changed = "changed"
	}
	classes := []string{"multi/" + changed}
	if len(out) > len(in.Items) {
		classes = append(classes, "multi/grown")
	}
	if len(out) < len(in.Items) {
		classes = append(classes, "multi/deleted")
	}
	if ncut > 0 {
		classes = append(classes, "multi/cut")
	}
	key := ""
	if changed == "changed" || ncut > 0 {
		key = fmt.Sprintf("%v/%v", in.Items, out)
		classes = append(classes, "nontrivial")
	}
	idx := o.Add(in, coq, key, classes...)
	if panicked {
		o.Fail(idx, "panic", msg)
	}
}

// ---- generator ----

func m18Items(r *vh.Rand, maxN int) []e18Item {
	n := r.Range(0, maxN)
	if r.Chance(85) && n < 2 {
		n = r.Range(2, maxN)
	}
	items := make([]e18Item, n)
	reverse := r.Chance(20)
	c := r.Range(0, 3)
	for i := range items {
		if i > 0 && r.Chance(55) {
			c += r.Range(1, 3)
		}
		kind := 0
		switch x := r.Intn(100); {
		case x < 65:
			kind = 0
		case x < 85:
			kind = 1
		default:
			kind = 2
		}
		g, u, q := e18Glyph(r, kind)
		m := uint32(8)
		switch r.Intn(10) {
		case 0:
			m = 0
		case 1:
			m = 16
		case 2:
			m = 24
		}
		if r.Chance(30) {
			m |= uint32(r.Range(1, 7)) // pre-set glyph flags (say, of the context that led to the substitution)
		}
		it := e18Item{C: c, M: m, G: g, U: u, Q: q}
		if r.Chance(12) {
			it.Q |= 16
		}
		if r.Chance(10) {
			it.Q |= 64
		}
		if r.Chance(25) {
			it.L = uint8(r.Range(0, 3))<<5 | uint8(r.Range(0, 4))
			if r.Chance(30) {
				it.L |= 16
			}
		}
		items[i] = it
	}
	if reverse {
		for i, j := 0, len(items)-1; i < j; i, j = i+1, j-1 {
			items[i], items[j] = items[j], items[i]
		}
	}
	return items
}

func m18Gen(r *vh.Rand, tier string, n int, emit func(any)) {
	maxN := 6
	if tier != "quick" {
		maxN = 8
	}
	// fixed witnesses first: a deleted glyph carrying flags hands them over to the next glyph of its cluster, which is
	// the LAST glyph of the buffer (seeded change R5-C18-m1); to the last out-buffer glyph; a 1 -> 2 substitution
	fixed := []m18Input{
		{Items: []e18Item{{C: 0, M: 8, G: 1, U: upLo}, {C: 1, M: 8 | 3, G: 2, U: upLo}, {C: 1, M: 8, G: 3, U: upLo}},
			Lookups: []m18Lookup{{Mask: 8, Seqs: []m18Seq{{G: 2, Seq: []int{}}}}}},
		{Items: []e18Item{{C: 0, M: 8, G: 1, U: upLo}, {C: 1, M: 8, G: 3, U: upLo}, {C: 1, M: 8 | 1, G: 2, U: upLo}, {C: 2, M: 8, G: 4, U: upLo}},
			Lookups: []m18Lookup{{Mask: 8, Seqs: []m18Seq{{G: 2, Seq: []int{}}}}}},
		{Items: []e18Item{{C: 0, M: 8, G: 1, U: upLo}, {C: 1, M: 8 | 2, G: 2, U: upLo, Q: 4}, {C: 2, M: 8, G: 3, U: upLo}},
			Lookups: []m18Lookup{{Mask: 8, Seqs: []m18Seq{{G: 2, Seq: []int{5, 6}}}}}},
	}
	for i := 0; i < n; i++ {
		if i < len(fixed) {
			emit(fixed[i])
			continue
		}
		var in m18Input
		in.Items = m18Items(r, maxN)
		in.Level = r.Intn(2)
		in.Concat = r.Chance(15)
		_, _, all := e18Gids(in.Items)
		nl := r.Range(1, 3)
		for j := 0; j < nl; j++ {
			l := m18Lookup{Mask: []uint32{8, 8, 8, 16, 24, 0}[r.Intn(6)], Flag: []uint16{0, 0, 0, 8, 4, 2}[r.Intn(6)]}
			ns := r.Range(1, 4)
			for k := 0; k < ns; k++ {
				s := m18Seq{G: e18Pick(r, all, 1, 8), Seq: []int{}}
				ln := []int{0, 0, 0, 1, 2, 2, 3}[r.Intn(7)]
				for q := 0; q < ln; q++ {
					s.Seq = append(s.Seq, r.Range(1, 10))
				}
				l.Seqs = append(l.Seqs, s)
			}
			in.Lookups = append(in.Lookups, l)
		}
		emit(in)
	}
}
