package main

import (
	"bytes"
	"encoding/binary"
	"encoding/json"
	"fmt"
	"math"
	"os"
	"path/filepath"
	"sort"
	"strings"

	"github.com/go-text/typesetting/font"
	ot "github.com/go-text/typesetting/font/opentype"
	"github.com/go-text/typesetting/font/opentype/tables"

	"verifharness/internal/vh"
)

// C10, variable fonts: coordinate normalisation (fvar/avar), ItemVariationStore evaluation and its users (HVAR, VVAR,
// MVAR), gvar (packed point numbers, packed deltas, application with inferred deltas, varied outline of simple
// glyphs).  The Coq models (Model/VarNorm.v, VarStore.v, GvarDeltas.v, GvarGlyph.v) receive the RAW table bytes.

type c10xInput struct {
	Kind     string      `json:"kind"`
	Font     string      `json:"font,omitempty"`
	Fvar     []byte      `json:"fvar,omitempty"`
	Avar     []byte      `json:"avar,omitempty"`
	Raw      []byte      `json:"raw,omitempty"`
	Design   []uint32    `json:"design,omitempty"` // design coordinates, float32 bit patterns
	Vars     [][2]uint32 `json:"vars,omitempty"`   // (tag, value bits)
	Coords   []int       `json:"coords,omitempty"` // normalized coordinates
	Gids     []int       `json:"gids,omitempty"`
	Vertical bool        `json:"vertical,omitempty"`
	Queries  [][]int     `json:"queries,omitempty"` // outer, inner, coords...
	Count    int         `json:"count,omitempty"`
	Axes     int         `json:"axes,omitempty"`
	Shared   [][]int     `json:"shared,omitempty"`
	Pts      []c10Pt     `json:"pts,omitempty"`
	F32s     []uint32    `json:"f32s,omitempty"`
}

func init() {
	drivers["c10var"] = &driver{
		header: "From TV Require Import Check.C10var.",
		shard:  10,
		n: func(tier string) int {
			if tier == "quick" {
				return 300
			}
			return 6000
		},
		decode: func(raw json.RawMessage) (any, error) {
			var in c10xInput
			err := json.Unmarshal(raw, &in)
			return in, err
		},
		gen: c10xGen,
		run: c10xRun,
	}
}

// ---- corpus -------------------------------------------------------------------------------------

type c10xFont struct {
	rel  string
	size int
	tabs map[string][2]int
}

var c10xFontsCache []c10xFont

// every .ttf/.otf of the corpus with an 'fvar' table (sfnt directory read by the driver), smallest first
func c10xFonts() []c10xFont {
	if c10xFontsCache != nil {
		return c10xFontsCache
	}
	root := c10Root()
	var out []c10xFont
	filepath.Walk(root, func(p string, info os.FileInfo, err error) error {
		if err != nil || info.IsDir() || !(strings.HasSuffix(p, ".ttf") || strings.HasSuffix(p, ".otf")) {
			return nil
		}
		f, err := os.Open(p)
		if err != nil {
			return nil
		}
		defer f.Close()
		hdr := make([]byte, 12+16*64)
		n, _ := f.Read(hdr)
		dir := c10Dir(hdr[:n])
		if _, ok := dir["fvar"]; !ok {
			return nil
		}
		rel, _ := filepath.Rel(root, p)
		out = append(out, c10xFont{rel, int(info.Size()), dir})
		return nil
	})
	sort.Slice(out, func(i, j int) bool {
		if out[i].size != out[j].size {
			return out[i].size < out[j].size
		}
		return out[i].rel < out[j].rel
	})
	c10xFontsCache = out
	return out
}

func (f c10xFont) has(tag string) bool { _, ok := f.tabs[tag]; return ok }
func (f c10xFont) tlen(tag string) int { return f.tabs[tag][1] }

var c10xLoaded = map[string]*c10Font{}

func c10xLoad(rel string) (*c10Font, error) {
	if f, ok := c10xLoaded[rel]; ok {
		return f, nil
	}
	f, err := c10Load(rel, nil)
	if err != nil {
		return nil, err
	}
	if len(c10xLoaded) > 12 {
		c10xLoaded = map[string]*c10Font{}
	}
	c10xLoaded[rel] = f
	return f, nil
}

func c10xRawTable(f *c10Font, tag string) []byte {
	b, _ := f.ld.RawTable(ot.MustNewTag(tag))
	return b
}

func f32bits(v float32) uint32 { return math.Float32bits(v) }

// the axis records of a raw fvar table as the driver reads them: (min, default, max) as 16.16 integers
func c10xAxes(fvar []byte) [][3]int32 {
	if len(fvar) < 16 {
		return nil
	}
	off := int(binary.BigEndian.Uint16(fvar[4:]))
	n := int(binary.BigEndian.Uint16(fvar[8:]))
	var out [][3]int32
	for i := 0; i < n; i++ {
		r := off + 20*i
		if r+20 > len(fvar) {
			break
		}
		out = append(out, [3]int32{int32(binary.BigEndian.Uint32(fvar[r+4:])), int32(binary.BigEndian.Uint32(fvar[r+8:])), int32(binary.BigEndian.Uint32(fvar[r+12:]))})
	}
	return out
}

func fixedToF32(v int32) float32 { return float32(float64(v) / 65536) }

// design coordinates for one axis: boundaries, outside, near the boundaries, random
func c10xDesign(r *vh.Rand, ax [3]int32) uint32 {
	mn, df, mx := fixedToF32(ax[0]), fixedToF32(ax[1]), fixedToF32(ax[2])
	switch r.Intn(12) {
	case 0:
		return f32bits(mn)
	case 1:
		return f32bits(df)
	case 2:
		return f32bits(mx)
	case 3:
		return f32bits(mx + float32(r.Range(1, 1000)))
	case 4:
		return f32bits(mn - float32(r.Range(1, 1000)))
	case 5:
		return f32bits(math.Nextafter32(df, mx))
	case 6:
		return f32bits(math.Nextafter32(df, mn))
	case 7:
		return f32bits((mn + df) / 2)
	case 8:
		return f32bits((mx + df) / 2)
	case 9:
		return f32bits(float32(r.Range(-40000, 40000)) + float32(r.Intn(65536))/65536)
	default:
		lo, hi := float64(mn), float64(mx)
		if hi < lo {
			lo, hi = hi, lo
		}
		return f32bits(float32(lo + (hi-lo)*r.Float64()))
	}
}

// a normalized coordinate
func c10xCoord(r *vh.Rand) int {
	switch r.Intn(8) {
	case 0:
		return 0
	case 1:
		return 16384
	case 2:
		return -16384
	case 3:
		return []int{8192, -8192, 4096, -4096, 12288, -12288}[r.Intn(6)]
	default:
		return r.Range(-16384, 16384)
	}
}
func c10xCoords(r *vh.Rand, n int) []int {
	c := make([]int, n)
	mode := r.Intn(4)
	for i := range c {
		switch mode {
		case 0: // one axis moved
			c[i] = 0
		case 1:
			c[i] = []int{16384, -16384, 0}[r.Intn(3)]
		default:
			c[i] = c10xCoord(r)
		}
	}
	if mode == 0 && n > 0 {
		c[r.Intn(n)] = c10xCoord(r)
	}
	return c
}

// ---- synthetic tables ---------------------------------------------------------------------------

func xbe16(v int) []byte { return []byte{byte(v >> 8), byte(v)} }
func xbe32(v int) []byte { return []byte{byte(v >> 24), byte(v >> 16), byte(v >> 8), byte(v)} }

func c10xSynFvar(r *vh.Rand, n int) []byte {
	out := append([]byte{0, 1, 0, 0, 0, 16, 0, 2}, xbe16(n)...)
	out = append(out, 0, 20, 0, 0, 0, byte(4*n+4))
	for i := 0; i < n; i++ {
		var mn, df, mx int
		switch r.Intn(10) {
		case 0: // arbitrary, possibly ill-ordered
			mn, df, mx = r.Range(-1<<31, 1<<31-1), r.Range(-1<<31, 1<<31-1), r.Range(-1<<31, 1<<31-1)
		case 1: // one-sided
			df = r.Range(-2000, 2000) << 16
			mn, mx = df, df+r.Range(0, 900)<<16
		case 2:
			df = r.Range(-2000, 2000) << 16
			mn, mx = df-r.Range(0, 900)<<16, df
		case 3: // values that float32 cannot hold exactly
			mn = r.Range(-1<<31, 0)
			df = mn + r.Intn(1<<30)
			mx = df + r.Intn(1<<30)
		default:
			df = r.Range(-1000<<16, 1000<<16)
			mn = df - r.Range(0, 900<<16)
			mx = df + r.Range(0, 900<<16)
		}
		out = append(out, 'a', 'x', '0', byte('0'+i))
		out = append(out, xbe32(mn)...)
		out = append(out, xbe32(df)...)
		out = append(out, xbe32(mx)...)
		out = append(out, 0, 0, 1, 0)
	}
	return out
}

func c10xSynAvar(r *vh.Rand, n int) []byte {
	out := append([]byte{0, 1, 0, 0, 0, 0}, xbe16(n)...)
	for i := 0; i < n; i++ {
		var pairs [][2]int
		switch r.Intn(6) {
		case 0: // none
		case 1: // arbitrary
			for k := r.Intn(5); k > 0; k-- {
				pairs = append(pairs, [2]int{r.Range(-32768, 32767), r.Range(-32768, 32767)})
			}
		default: // well-formed: -1 -> -1, 0 -> 0, 1 -> 1 and sorted knees
			from := map[int]bool{-16384: true, 0: true, 16384: true}
			for k := r.Intn(4); k > 0; k-- {
				from[r.Range(-16383, 16383)] = true
			}
			var fs []int
			for f := range from {
				fs = append(fs, f)
			}
			sort.Ints(fs)
			var neg, pos []int
			for _, f := range fs {
				if f < 0 && f != -16384 {
					neg = append(neg, r.Range(-16384, 0))
				} else if f > 0 && f != 16384 {
					pos = append(pos, r.Range(0, 16384))
				}
			}
			sort.Ints(neg)
			sort.Ints(pos)
			ni, pi := 0, 0
			for _, f := range fs {
				switch {
				case f == -16384 || f == 0 || f == 16384:
					pairs = append(pairs, [2]int{f, f})
				case f < 0:
					pairs = append(pairs, [2]int{f, neg[ni]})
					ni++
				default:
					pairs = append(pairs, [2]int{f, pos[pi]})
					pi++
				}
			}
		}
		out = append(out, xbe16(len(pairs))...)
		for _, p := range pairs {
			out = append(out, xbe16(p[0]&0xffff)...)
			out = append(out, xbe16(p[1]&0xffff)...)
		}
	}
	if r.Chance(5) && len(out) > 9 {
		out = out[:len(out)-r.Range(1, 3)]
	}
	return out
}

// a region axis record, mostly well-formed
func c10xRegionAxis(r *vh.Rand) [3]int {
	switch r.Intn(10) {
	case 0:
		return [3]int{r.Range(-32768, 32767), r.Range(-32768, 32767), r.Range(-32768, 32767)}
	case 1, 2, 3:
		return [3]int{0, 0, 0}
	case 4:
		return [3]int{-16384, 8192, 16384} // start < 0 < end with a peak: ignored by the rule
	case 5:
		return [3]int{-r.Range(1, 16384), []int{-4096, 4096, 8192}[r.Intn(3)], r.Range(1, 16384)}
	default:
		v := []int{r.Range(0, 16384), r.Range(0, 16384), r.Range(0, 16384)}
		sort.Ints(v)
		if r.Bool() {
			v[2] = 16384
		}
		if r.Bool() {
			return [3]int{-v[2], -v[1], -v[0]}
		}
		return [3]int{v[0], v[1], v[2]}
	}
}

func c10xSynStore(r *vh.Rand, axes int) ([]byte, [][][3]int) {
	nreg := r.Range(0, 4)
	ndata := r.Range(1, 2)
	var regs []byte
	regs = append(regs, xbe16(axes)...)
	regs = append(regs, xbe16(nreg)...)
	var recs [][][3]int
	for i := 0; i < nreg; i++ {
		var rec [][3]int
		for a := 0; a < axes; a++ {
			t := c10xRegionAxis(r)
			rec = append(rec, t)
			for _, v := range t {
				regs = append(regs, xbe16(v&0xffff)...)
			}
		}
		recs = append(recs, rec)
	}
	var datas [][]byte
	for d := 0; d < ndata; d++ {
		items := r.Range(0, 3)
		ric := r.Range(0, nreg+1)
		short := r.Range(0, ric)
		if r.Chance(4) {
			short = ric + 1
		}
		wdc := short
		if r.Chance(3) {
			wdc |= 0x8000
		}
		b := append(xbe16(items), xbe16(wdc)...)
		b = append(b, xbe16(ric)...)
		for i := 0; i < ric; i++ {
			idx := r.Intn(nreg + 1)
			if idx == nreg && !r.Chance(15) && nreg > 0 {
				idx = r.Intn(nreg)
			}
			b = append(b, xbe16(idx)...)
		}
		b = append(b, r.Bytes(items*(short+ric))...)
		if r.Chance(4) && len(b) > 6 {
			b = b[:len(b)-1]
		}
		datas = append(datas, b)
	}
	hdr := 8 + 4*ndata
	out := append([]byte{0, 1}, xbe32(hdr)...)
	out = append(out, xbe16(ndata)...)
	off := hdr + len(regs)
	for _, d := range datas {
		if r.Chance(5) {
			out = append(out, 0, 0, 0, 0)
		} else {
			out = append(out, xbe32(off)...)
		}
		off += len(d)
	}
	out = append(out, regs...)
	for _, d := range datas {
		out = append(out, d...)
	}
	if r.Chance(3) {
		out[0], out[1] = 0, 0
	}
	return out, recs
}

// packed point numbers for the given (increasing) point indices; nil = "all points"
func c10xPackPoints(r *vh.Rand, pts []int) []byte {
	if pts == nil {
		return []byte{0}
	}
	var out []byte
	if len(pts) < 128 && r.Chance(80) {
		out = append(out, byte(len(pts)))
	} else {
		out = append(out, byte(0x80|len(pts)>>8), byte(len(pts)))
	}
	last := 0
	for i := 0; i < len(pts); {
		run := r.Range(1, 4)
		if i+run > len(pts) {
			run = len(pts) - i
		}
		words := r.Chance(30)
		for k := 0; k < run; k++ {
			if pts[i+k]-last > 255 {
				words = true
			}
			last = pts[i+k]
		}
		last = 0
		if i > 0 {
			last = pts[i-1]
		}
		if words {
			out = append(out, byte(0x80|(run-1)))
		} else {
			out = append(out, byte(run-1))
		}
		for k := 0; k < run; k++ {
			d := (pts[i+k] - last) & 0xffff
			if words {
				out = append(out, xbe16(d)...)
			} else {
				out = append(out, byte(d))
			}
			last = pts[i+k]
		}
		i += run
	}
	return out
}

func c10xPackDeltas(r *vh.Rand, ds []int) []byte {
	var out []byte
	for i := 0; i < len(ds); {
		run := r.Range(1, 5)
		if i+run > len(ds) {
			run = len(ds) - i
		}
		zero, words := true, r.Chance(20)
		for k := 0; k < run; k++ {
			if ds[i+k] != 0 {
				zero = false
			}
			if ds[i+k] < -128 || ds[i+k] > 127 {
				words = true
			}
		}
		switch {
		case zero && r.Chance(80):
			out = append(out, byte(0x80|(run-1)))
		case words:
			out = append(out, byte(0x40|(run-1)))
			for k := 0; k < run; k++ {
				out = append(out, xbe16(ds[i+k]&0xffff)...)
			}
		default:
			out = append(out, byte(run-1))
			for k := 0; k < run; k++ {
				out = append(out, byte(ds[i+k]))
			}
		}
		i += run
	}
	return out
}

func c10xDelta(r *vh.Rand) int {
	switch r.Intn(6) {
	case 0:
		return 0
	case 1:
		return r.Range(-32768, 32767)
	default:
		return r.Range(-120, 120)
	}
}

func c10xPointSet(r *vh.Rand, all int) []int {
	if r.Chance(30) {
		return nil
	}
	var pts []int
	for i := 0; i < all; i++ {
		if r.Chance(45) {
			pts = append(pts, i)
		}
	}
	if r.Chance(6) {
		pts = append(pts, all+r.Intn(300)) // out of range
	}
	if len(pts) == 0 {
		pts = []int{r.Intn(all)}
	}
	if r.Chance(15) { // a point listed twice
		pts = append(pts, pts[len(pts)-1])
	}
	return pts
}

func c10xPeakCoord(r *vh.Rand) int {
	switch r.Intn(5) {
	case 0:
		return 0
	case 1:
		return 16384
	case 2:
		return -16384
	default:
		return r.Range(-16384, 16384)
	}
}

// raw GlyphVariationData for a glyph with [all] points (phantom points included)
func c10xSynGvd(r *vh.Rand, axes, all, nshared int) []byte {
	nt := r.Range(1, 3)
	hasShared := r.Chance(35)
	var data []byte
	var sharedPts []int
	if hasShared {
		sharedPts = c10xPointSet(r, all)
		data = append(data, c10xPackPoints(r, sharedPts)...)
	}
	var hdrs []byte
	for t := 0; t < nt; t++ {
		idx := 0
		var tuples []byte
		if nshared > 0 && r.Chance(40) {
			idx = r.Intn(nshared + 1)
			if idx == nshared && !r.Chance(10) {
				idx = r.Intn(nshared)
			}
		} else {
			idx |= 0x8000
			for a := 0; a < axes; a++ {
				tuples = append(tuples, xbe16(c10xPeakCoord(r)&0xffff)...)
			}
		}
		if r.Chance(30) {
			idx |= 0x4000
			var st, en []byte
			for a := 0; a < axes; a++ {
				ax := c10xRegionAxis(r)
				st = append(st, xbe16(ax[0]&0xffff)...)
				en = append(en, xbe16(ax[2]&0xffff)...)
			}
			tuples = append(tuples, st...)
			tuples = append(tuples, en...)
		}
		pts := sharedPts
		var body []byte
		if !hasShared || r.Chance(50) {
			idx |= 0x2000
			pts = c10xPointSet(r, all)
			body = append(body, c10xPackPoints(r, pts)...)
		}
		n := all
		if pts != nil {
			n = len(pts)
		}
		ds := make([]int, 2*n)
		for i := range ds {
			ds[i] = c10xDelta(r)
		}
		body = append(body, c10xPackDeltas(r, ds)...)
		size := len(body)
		if r.Chance(3) {
			size += r.Range(-2, 40)
			if size < 0 {
				size = 0
			}
		}
		hdrs = append(hdrs, xbe16(size)...)
		hdrs = append(hdrs, xbe16(idx)...)
		hdrs = append(hdrs, tuples...)
		data = append(data, body...)
	}
	cnt := nt
	if hasShared {
		cnt |= 0x8000
	}
	out := append(xbe16(cnt), xbe16(4+len(hdrs))...)
	out = append(out, hdrs...)
	out = append(out, data...)
	switch r.Intn(40) {
	case 0:
		out = out[:r.Intn(len(out))]
	case 1:
		out[r.Intn(len(out))] ^= byte(1 << r.Intn(8))
	}
	return out
}

// contour points followed by four phantom points; coordinates repeat often (coincident neighbours)
func c10xSynPoints(r *vh.Rand) []c10Pt {
	var pts []c10Pt
	vals := []int{0, 0, 10, 10, 100, -50, 250, r.Range(-500, 500), r.Range(-500, 500), r.Range(-32768, 32767)}
	for c := r.Range(0, 3); c > 0; c-- {
		n := r.Range(1, 6)
		for i := 0; i < n; i++ {
			pts = append(pts, c10Pt{X: vals[r.Intn(len(vals))], Y: vals[r.Intn(len(vals))], On: r.Bool(), End: i == n-1})
		}
	}
	pts = append(pts, c10Pt{X: r.Range(-100, 100)}, c10Pt{X: r.Range(300, 900)}, c10Pt{Y: r.Range(500, 900)}, c10Pt{Y: r.Range(-300, 0)})
	return pts
}

// ---- generation ---------------------------------------------------------------------------------

func c10xGen(r *vh.Rand, tier string, n int, emit func(any)) {
	quick := tier == "quick"
	fonts := c10xFonts()
	maxSize := 1 << 20
	if !quick {
		maxSize = 4 << 20
	}
	var usable []c10xFont
	for _, f := range fonts {
		if f.size <= maxSize && f.tlen("hmtx") <= 9000 {
			usable = append(usable, f)
		}
	}
	var ins []any
	add := func(in c10xInput) { ins = append(ins, in) }
	share := func(pct int) int { return n * pct / 100 }

	// normalisation on corpus fonts (distinct fvar+avar pairs) and on synthetic tables
	seenNorm := map[string]bool{}
	var normFonts []c10xFont
	for _, f := range usable {
		ld, err := c10xLoad(f.rel)
		if err != nil {
			continue
		}
		k := string(c10xRawTable(ld, "fvar")) + "|" + string(c10xRawTable(ld, "avar"))
		if seenNorm[k] {
			continue
		}
		seenNorm[k] = true
		normFonts = append(normFonts, f)
	}
	for i := 0; i < share(16) && len(normFonts) > 0; i++ {
		f := normFonts[i%len(normFonts)]
		ld, _ := c10xLoad(f.rel)
		axes := c10xAxes(c10xRawTable(ld, "fvar"))
		d := make([]uint32, len(axes))
		for a, ax := range axes {
			d[a] = c10xDesign(r, ax)
		}
		if r.Chance(3) && len(d) > 0 {
			d = d[:len(d)-1] // too few coordinates: documented panic
		}
		add(c10xInput{Kind: "norm", Font: f.rel, Design: d})
	}
	// an axis -1 / 0 / 1 (the design value IS the normalized one) and segment maps whose slopes are multiples of 1/4:
	// many exact halves and quarters, on both sides of zero
	for i := 0; i < share(5); i++ {
		fv := append([]byte{0, 1, 0, 0, 0, 16, 0, 2, 0, 1, 0, 20, 0, 0, 0, 8, 't', 'i', 'e', 's'}, xbe32(0xffff0000)...)
		fv = append(fv, xbe32(0)...)
		fv = append(fv, xbe32(0x10000)...)
		fv = append(fv, 0, 0, 1, 0)
		froms := []int{-16384, -8192, 0, 8192, 16384}
		tos := []int{-16384, -2048 * r.Range(2, 8), 0, 2048 * r.Range(0, 8), 16384}
		if r.Bool() {
			tos[3] = -tos[1] // symmetric table
		}
		av := append([]byte{0, 1, 0, 0, 0, 0}, xbe16(1)...)
		av = append(av, xbe16(len(froms))...)
		for k := range froms {
			av = append(av, xbe16(froms[k]&0xffff)...)
			av = append(av, xbe16(tos[k]&0xffff)...)
		}
		v := r.Range(-16384, 16384)
		if r.Chance(70) {
			v |= 1
		}
		add(c10xInput{Kind: "norm", Fvar: fv, Avar: av, Design: []uint32{f32bits(float32(v) / 16384)}})
	}
	for i := 0; i < share(12); i++ {
		na := r.Range(1, 3)
		fv := c10xSynFvar(r, na)
		av := c10xSynAvar(r, r.Range(0, na+1))
		axes := c10xAxes(fv)
		for k := 0; k < 2; k++ {
			d := make([]uint32, len(axes))
			for a, ax := range axes {
				d[a] = c10xDesign(r, ax)
			}
			if r.Chance(50) { // a design value that lands on an exact half of an avar segment
				for a := range d {
					if r.Bool() {
						x := float32(r.Range(-16384, 16384)) / 16384
						mn, df, mx := fixedToF32(axes[a][0]), fixedToF32(axes[a][1]), fixedToF32(axes[a][2])
						if x < 0 {
							d[a] = f32bits(df + x*(df-mn))
						} else {
							d[a] = f32bits(df + x*(mx-df))
						}
					}
				}
			}
			add(c10xInput{Kind: "norm", Fvar: fv, Avar: av, Design: d})
		}
	}
	for i := 0; i < share(3) && len(normFonts) > 0; i++ {
		f := normFonts[r.Intn(len(normFonts))]
		ld, _ := c10xLoad(f.rel)
		fv := c10xRawTable(ld, "fvar")
		axes := c10xAxes(fv)
		var vars [][2]uint32
		for k := r.Range(1, 3); k > 0 && len(axes) > 0; k-- {
			a := r.Intn(len(axes))
			off := int(binary.BigEndian.Uint16(fv[4:])) + 20*a
			tag := binary.BigEndian.Uint32(fv[off:])
			if r.Chance(10) {
				tag ^= 1
			}
			vars = append(vars, [2]uint32{tag, c10xDesign(r, axes[a])})
		}
		add(c10xInput{Kind: "design", Font: f.rel, Vars: vars})
	}

	// stores
	for i := 0; i < share(10); i++ {
		axes := r.Range(1, 3)
		raw, recs := c10xSynStore(r, axes)
		var qs [][]int
		for k := 0; k < 5; k++ {
			nc := axes
			if r.Chance(15) {
				nc = r.Range(0, axes+1)
			}
			q := []int{r.Intn(3), r.Intn(4)}
			cs := c10xCoords(r, nc)
			if len(recs) > 0 && r.Chance(70) { // inside a region: at the peak or between the peak and a border
				rec := recs[r.Intn(len(recs))]
				for a := 0; a < nc && a < len(rec); a++ {
					switch r.Intn(3) {
					case 0:
						cs[a] = rec[a][1]
					case 1:
						cs[a] = (rec[a][0] + rec[a][1]) / 2
					default:
						cs[a] = rec[a][1] + (rec[a][2]-rec[a][1])/3
					}
					if cs[a] > 16384 || cs[a] < -16384 {
						cs[a] = 0
					}
				}
			}
			q = append(q, cs...)
			qs = append(qs, q)
		}
		add(c10xInput{Kind: "store", Raw: raw, Queries: qs})
	}
	var hvarFonts, vvarFonts, mvarFonts, gvarFonts []c10xFont
	for _, f := range usable {
		if f.has("HVAR") {
			hvarFonts = append(hvarFonts, f)
		}
		if f.has("VVAR") && f.tlen("vmtx") <= 9000 {
			vvarFonts = append(vvarFonts, f)
		}
		if f.has("MVAR") {
			mvarFonts = append(mvarFonts, f)
		}
		if f.has("gvar") && f.has("glyf") {
			gvarFonts = append(gvarFonts, f)
		}
	}
	advCase := func(f c10xFont, vertical bool) {
		ld, err := c10xLoad(f.rel)
		if err != nil {
			return
		}
		nl := ld.nLong
		gids := []int{0, nl - 1, nl, ld.nGlyphs - 1, ld.nGlyphs, 65535}
		for k := 0; k < 6; k++ {
			gids = append(gids, r.Intn(ld.nGlyphs))
		}
		var g2 []int
		for _, g := range gids {
			if g >= 0 && g <= 65535 {
				g2 = append(g2, g)
			}
		}
		nc := ld.axes
		if r.Chance(6) {
			nc = r.Range(0, ld.axes+1) // wrong number of coordinates: the face is not variable
		}
		add(c10xInput{Kind: "adv", Font: f.rel, Coords: c10xCoords(r, nc), Gids: g2, Vertical: vertical})
	}
	for i := 0; i < share(10) && len(hvarFonts) > 0; i++ {
		advCase(hvarFonts[i%len(hvarFonts)], false)
	}
	for i := 0; i < share(2) && len(vvarFonts) > 0; i++ {
		advCase(vvarFonts[i%len(vvarFonts)], true)
	}
	for i := 0; i < share(7) && len(mvarFonts) > 0; i++ {
		f := mvarFonts[i%len(mvarFonts)]
		ld, err := c10xLoad(f.rel)
		if err != nil {
			continue
		}
		nc := ld.axes
		if r.Chance(30) { // a face without coordinates (the state after NewFace) or with too few
			nc = r.Range(0, ld.axes-1)
			if r.Bool() {
				nc = 0
			}
		}
		add(c10xInput{Kind: "mvar", Font: f.rel, Coords: c10xCoords(r, nc)})
	}

	// gvar: byte level
	for i := 0; i < share(5); i++ {
		switch r.Intn(3) {
		case 0:
			add(c10xInput{Kind: "points", Raw: r.Bytes(r.Range(0, 14))})
		case 1:
			add(c10xInput{Kind: "points", Raw: c10xPackPoints(r, c10xPointSet(r, r.Range(1, 40)))})
		default:
			b := r.Bytes(r.Range(0, 14))
			if r.Bool() {
				ds := make([]int, r.Range(0, 20))
				for k := range ds {
					ds[k] = c10xDelta(r)
				}
				b = c10xPackDeltas(r, ds)
			}
			add(c10xInput{Kind: "deltas", Raw: b, Count: r.Range(0, 24)})
		}
	}
	for i := 0; i < share(3); i++ {
		vals := []float32{0, 1, -1, 10, 10, 100, -50, 0.5, 0.25, 3, float32(r.Range(-500, 500)), float32(r.Range(-500, 500)), float32(r.Range(-5000, 5000)) / 16, float32(r.Range(-5000, 5000)) / 7}
		a := make([]uint32, 5)
		for k := range a {
			a[k] = f32bits(vals[r.Intn(len(vals))])
		}
		add(c10xInput{Kind: "infer", F32s: a})
	}
	// gvar: synthetic variation data applied to synthetic points
	for i := 0; i < share(13); i++ {
		axes := r.Range(1, 3)
		pts := c10xSynPoints(r)
		var shared [][]int
		for k := r.Range(0, 2); k > 0; k-- {
			t := make([]int, axes)
			for a := range t {
				t[a] = c10xPeakCoord(r)
			}
			shared = append(shared, t)
		}
		raw := c10xSynGvd(r, axes, len(pts), len(shared))
		add(c10xInput{Kind: "apply", Raw: raw, Axes: axes, Coords: c10xCoords(r, axes), Shared: shared, Pts: pts})
	}
	// gvar: glyphs of corpus fonts
	for i := 0; i < share(15) && len(gvarFonts) > 0; i++ {
		f := gvarFonts[i%len(gvarFonts)]
		ld, err := c10xLoad(f.rel)
		if err != nil || !ld.eligible() {
			continue
		}
		var gids []int
		for k := 0; k < 40 && len(gids) < 4; k++ {
			g := r.Intn(ld.nGlyphs)
			rec, ok := ld.glyphRaw(g)
			if !ok || len(rec) > 420 || (len(rec) >= 2 && int16(binary.BigEndian.Uint16(rec)) < 0) {
				continue
			}
			gids = append(gids, g)
		}
		if len(gids) == 0 {
			continue
		}
		sort.Ints(gids)
		add(c10xInput{Kind: "glyph", Font: f.rel, Coords: c10xCoords(r, ld.axes), Gids: gids})
	}
	r.Shuffle(len(ins), func(i, j int) { ins[i], ins[j] = ins[j], ins[i] })
	for _, in := range ins {
		emit(in)
	}
}

// ---- running ------------------------------------------------------------------------------------

func c10xBitsList(v []uint32) string {
	el := make([]string, len(v))
	for i, x := range v {
		el[i] = vh.Z(int64(x))
	}
	return vh.List(el)
}
func c10xCoordList(v []tables.Coord) string {
	el := make([]string, len(v))
	for i, x := range v {
		el[i] = vh.Zi(int(x))
	}
	return vh.List(el)
}
func c10xToCoords(c []int) []tables.Coord {
	out := make([]tables.Coord, len(c))
	for i, v := range c {
		out[i] = tables.Coord(int16(v))
	}
	return out
}
func c10xI16List(v []int16) string {
	el := make([]string, len(v))
	for i, x := range v {
		el[i] = vh.Zi(int(x))
	}
	return vh.List(el)
}
func c10xU16List(v []uint16) string {
	el := make([]string, len(v))
	for i, x := range v {
		el[i] = vh.Zi(int(x))
	}
	return vh.List(el)
}
func c10xBPoints(pts []font.VerifContourPoint) string {
	el := make([]string, len(pts))
	for i, p := range pts {
		el[i] = vh.App("FP", c10cBits(p.X), c10cBits(p.Y), vh.Bool(p.On), vh.Bool(p.IsEnd))
	}
	return vh.List(el)
}
func c10xShared(sh [][]int16) string {
	el := make([]string, len(sh))
	for i, t := range sh {
		el[i] = c10xI16List(t)
	}
	return vh.List(el)
}

const c10xSkip = "(CDelta [] false [])"

// the raw GlyphVariationData of a glyph, cut by the driver's own reading of the gvar header and offsets
func c10xGvdRaw(gvar []byte, gid int) ([]byte, bool) {
	if len(gvar) < 20 {
		return nil, false
	}
	count := int(binary.BigEndian.Uint16(gvar[12:]))
	flags := binary.BigEndian.Uint16(gvar[14:])
	arr := int(binary.BigEndian.Uint32(gvar[16:]))
	if gid >= count {
		return nil, false
	}
	var s, e int
	if flags&1 != 0 {
		if 20+4*gid+8 > len(gvar) {
			return nil, false
		}
		s, e = int(binary.BigEndian.Uint32(gvar[20+4*gid:])), int(binary.BigEndian.Uint32(gvar[24+4*gid:]))
	} else {
		if 20+2*gid+4 > len(gvar) {
			return nil, false
		}
		s, e = 2*int(binary.BigEndian.Uint16(gvar[20+2*gid:])), 2*int(binary.BigEndian.Uint16(gvar[22+2*gid:]))
	}
	if s > e || arr+e > len(gvar) {
		return nil, false
	}
	return gvar[arr+s : arr+e], true
}

func c10xSharedRaw(gvar []byte) [][]int16 {
	if len(gvar) < 20 {
		return nil
	}
	axes := int(binary.BigEndian.Uint16(gvar[4:]))
	n := int(binary.BigEndian.Uint16(gvar[6:]))
	off := int(binary.BigEndian.Uint32(gvar[8:]))
	var out [][]int16
	for i := 0; i < n; i++ {
		t := make([]int16, axes)
		for a := range t {
			p := off + 2*(i*axes+a)
			if p+2 > len(gvar) {
				return out
			}
			t[a] = int16(binary.BigEndian.Uint16(gvar[p:]))
		}
		out = append(out, t)
	}
	return out
}

func c10xRun(o *vh.Out, inAny any) {
	in := inAny.(c10xInput)
	var fails []string
	coq, key := c10xSkip, ""
	classes := []string{"kind_" + in.Kind}
	func() {
		defer func() {
			if p := recover(); p != nil {
				fails = append(fails, fmt.Sprintf("panic: %v", p))
			}
		}()
		switch in.Kind {
		case "norm":
			coq, key, fails = c10xRunNorm(o, in)
		case "design":
			coq, key, fails = c10xRunDesign(o, in)
		case "store":
			coq, key, fails = c10xRunStore(o, in)
		case "adv":
			coq, key, fails = c10xRunAdv(o, in)
		case "mvar":
			coq, key, fails = c10xRunMvar(o, in)
		case "points":
			pts, isNil, rest, err := font.VerifParsePointNumbers(in.Raw)
			coq = vh.App("CPoints", vh.BytesLit(in.Raw), vh.Bool(err != nil), vh.Bool(isNil && err == nil), c10xU16List(pts), vh.Zi(rest))
			key = coq
			if err != nil {
				o.Count("points_error")
			} else if isNil {
				o.Count("points_all")
			} else {
				o.Count("points_list")
			}
		case "deltas":
			out, err := font.VerifUnpackDeltas(in.Raw, in.Count)
			coq = vh.App("CDeltas", vh.BytesLit(in.Raw), vh.Zi(in.Count), vh.Bool(err != nil), c10xI16List(out))
			key = coq
			if err != nil {
				o.Count("deltas_error")
			} else {
				o.Count("deltas_ok")
			}
		case "infer":
			if len(in.F32s) != 5 {
				fails = append(fails, "driver: infer needs 5 values")
				return
			}
			a := make([]float32, 5)
			for i, b := range in.F32s {
				a[i] = math.Float32frombits(b)
			}
			res := font.VerifInferDelta(a[0], a[1], a[2], a[3], a[4])
			coq = vh.App("CInfer", c10xBitsList(in.F32s), c10cBits(res))
			key = coq
		case "apply":
			coq, key, fails = c10xRunApply(o, in)
		case "glyph":
			coq, key, fails = c10xRunGlyph(o, in)
		default:
			fails = append(fails, "driver: unknown kind "+in.Kind)
		}
	}()
	idx := o.Add(in, coq, key, classes...)
	for _, f := range fails {
		kind := "impl"
		if strings.HasPrefix(f, "panic") {
			kind = "panic"
		}
		o.Fail(idx, kind, f)
	}
}

func c10xRunNorm(o *vh.Out, in c10xInput) (coq, key string, fails []string) {
	coq = c10xSkip
	fvRaw, avRaw := in.Fvar, in.Avar
	var ft *font.Font
	if in.Font != "" {
		ld, err := c10xLoad(in.Font)
		if err != nil {
			return coq, "", []string{"driver: " + err.Error()}
		}
		fvRaw, avRaw = c10xRawTable(ld, "fvar"), c10xRawTable(ld, "avar")
		ft = ld.ft
	}
	design := make([]float32, len(in.Design))
	for i, b := range in.Design {
		design[i] = math.Float32frombits(b)
		if math.IsNaN(float64(design[i])) || math.IsInf(float64(design[i]), 0) {
			return coq, "", []string{"driver: non-finite design coordinate"}
		}
	}
	fv, _, _ := tables.ParseFvar(fvRaw)
	av, _, _ := tables.ParseAvar(avRaw)
	var out []tables.Coord
	panicked := false
	func() {
		defer func() {
			if p := recover(); p != nil {
				panicked = true
			}
		}()
		out = font.VerifNormalizeWith(fv, av, design)
	}()
	if ft != nil && !panicked {
		direct := ft.NormalizeVariations(design)
		if fmt.Sprint(direct) != fmt.Sprint(out) {
			fails = append(fails, fmt.Sprintf("Font.NormalizeVariations %v differs from the tables parsed by the driver %v", direct, out))
		}
		// SetVariations with every axis given = SetCoords(NormalizeVariations)
		var vars []font.Variation
		for i, ax := range fv.FvarRecords.Axis {
			if i < len(design) {
				vars = append(vars, font.Variation{Tag: ax.Tag, Value: design[i]})
			}
		}
		if len(vars) == len(fv.FvarRecords.Axis) && len(vars) > 0 {
			seen := map[ot.Tag]bool{}
			dup := false
			for _, v := range vars {
				dup = dup || seen[v.Tag]
				seen[v.Tag] = true
			}
			if !dup {
				face := font.NewFace(ft)
				face.SetVariations(vars)
				if fmt.Sprint(face.Coords()) != fmt.Sprint(direct) {
					fails = append(fails, fmt.Sprintf("SetVariations %v differs from NormalizeVariations %v", face.Coords(), direct))
				}
			}
		}
	}
	coq = vh.App("CNorm", vh.BytesLit(fvRaw), vh.BytesLit(avRaw), c10xBitsList(in.Design), vh.Bool(panicked), c10xCoordList(out))
	key = coq
	switch {
	case panicked:
		o.Count("norm_panic_too_few_coords")
	default:
		for _, c := range out {
			switch {
			case c == 0:
				o.Count("norm_zero")
			case c == 16384 || c == -16384:
				o.Count("norm_extreme")
			case c > 16384 || c < -16384:
				o.Count("norm_outside_unit")
			default:
				o.Count("norm_inside")
			}
		}
		if len(avRaw) > 8 {
			o.Count("norm_with_avar")
		}
	}
	return
}

func c10xRunDesign(o *vh.Out, in c10xInput) (coq, key string, fails []string) {
	ld, err := c10xLoad(in.Font)
	if err != nil {
		return c10xSkip, "", []string{"driver: " + err.Error()}
	}
	var vars []font.Variation
	var el []string
	for _, v := range in.Vars {
		vars = append(vars, font.Variation{Tag: ot.Tag(v[0]), Value: math.Float32frombits(v[1])})
		el = append(el, vh.Tuple(vh.Z(int64(v[0])), vh.Z(int64(v[1]))))
	}
	out := ld.ft.VerifDesignCoords(vars)
	bits := make([]uint32, len(out))
	for i, v := range out {
		bits[i] = f32bits(v)
	}
	coq = vh.App("CDesign", vh.BytesLit(c10xRawTable(ld, "fvar")), vh.List(el), c10xBitsList(bits))
	return coq, coq, nil
}

func c10xRunStore(o *vh.Out, in c10xInput) (coq, key string, fails []string) {
	store, _, err := tables.ParseItemVarStore(in.Raw)
	var qs []string
	if err == nil {
		for _, q := range in.Queries {
			if len(q) < 2 {
				continue
			}
			coords := c10xToCoords(q[2:])
			d := store.GetDelta(tables.VariationStoreIndex{DeltaSetOuter: uint16(q[0]), DeltaSetInner: uint16(q[1])}, coords)
			qs = append(qs, vh.Tuple(vh.Zi(q[0]), vh.Zi(q[1]), c10xCoordList(coords), c10cBits(d)))
			switch {
			case d == 0:
				o.Count("delta_zero")
			case d == float32(int32(d)):
				o.Count("delta_integer")
			default:
				o.Count("delta_fraction")
			}
		}
		o.Count("store_accepted")
	} else {
		o.Count("store_rejected")
	}
	coq = vh.App("CDelta", vh.BytesLit(in.Raw), vh.Bool(err == nil), vh.List(qs))
	return coq, coq, nil
}

func c10xRunAdv(o *vh.Out, in c10xInput) (coq, key string, fails []string) {
	ld, err := c10xLoad(in.Font)
	if err != nil {
		return c10xSkip, "", []string{"driver: " + err.Error()}
	}
	tag, hea, mtx := "HVAR", "hhea", "hmtx"
	has := ld.ft.VerifHasHVAR()
	if in.Vertical {
		tag, hea, mtx = "VVAR", "vhea", "vmtx"
		has = ld.ft.VerifHasVVAR()
	}
	if !has {
		o.Count("adv_table_not_loaded")
		return c10xSkip, "", nil
	}
	face := font.NewFace(ld.ft)
	coords := c10xToCoords(in.Coords)
	face.SetCoords(coords)
	var rs []string
	for _, g := range in.Gids {
		var a float32
		if in.Vertical {
			a = face.VerticalAdvance(font.GID(g))
		} else {
			a = face.HorizontalAdvance(font.GID(g))
		}
		rs = append(rs, vh.Tuple(vh.Zi(g), c10cBits(a)))
		if a != float32(int32(a)) {
			o.Count("advance_fraction")
		} else {
			o.Count("advance_integer")
		}
	}
	coq = vh.App("CAdv", vh.BytesLit(c10xRawTable(ld, tag)), vh.Bool(in.Vertical), vh.BytesLit(c10xRawTable(ld, hea)),
		vh.BytesLit(c10xRawTable(ld, mtx)), vh.Zi(ld.nGlyphs), vh.Zi(int(ld.ft.Upem())), vh.Zi(ld.axes), c10xCoordList(coords), vh.List(rs))
	if len(in.Coords) != ld.axes {
		o.Count("adv_not_variable")
	}
	return coq, coq, nil
}

var c10xLineMetrics = []struct {
	m     font.LineMetric
	tag   string
	table string
	off   int
}{
	{font.UnderlinePosition, "undo", "post", 8},
	{font.UnderlineThickness, "unds", "post", 10},
	{font.StrikethroughPosition, "stro", "OS/2", 28},
	{font.StrikethroughThickness, "strs", "OS/2", 26},
	{font.SuperscriptEmYSize, "spys", "OS/2", 20},
	{font.SuperscriptEmXOffset, "spxo", "OS/2", 22},
	{font.SubscriptEmYSize, "sbys", "OS/2", 12},
	{font.SubscriptEmYOffset, "sbyo", "OS/2", 16},
	{font.SubscriptEmXOffset, "sbxo", "OS/2", 14},
	{font.CapHeight, "cpht", "OS/2", 88},
	{font.XHeight, "xhgt", "OS/2", 86},
}

func c10xRunMvar(o *vh.Out, in c10xInput) (coq, key string, fails []string) {
	ld, err := c10xLoad(in.Font)
	if err != nil {
		return c10xSkip, "", []string{"driver: " + err.Error()}
	}
	mv := c10xRawTable(ld, "MVAR")
	coords := c10xToCoords(in.Coords)
	face := font.NewFace(ld.ft)
	face.SetCoords(coords)
	// every tag of the table (read by the driver) and a few absent ones
	tags := []uint32{uint32(ot.MustNewTag("hasc")), uint32(ot.MustNewTag("zzzz")), 0, 0xffffffff}
	if len(mv) >= 12 {
		size, count := int(binary.BigEndian.Uint16(mv[6:])), int(binary.BigEndian.Uint16(mv[8:]))
		for i := 0; i < count && 12+size*i+4 <= len(mv) && size >= 8; i++ {
			t := binary.BigEndian.Uint32(mv[12+size*i:])
			tags = append(tags, t, t+1)
		}
	}
	var ds []string
	for _, t := range tags {
		d := ld.ft.VerifMvarDelta(ot.Tag(t), coords)
		ds = append(ds, vh.Tuple(vh.Z(int64(t)), c10cBits(d)))
		if d != 0 {
			o.Count("mvar_delta_nonzero")
		} else {
			o.Count("mvar_delta_zero")
		}
	}
	var ms []string
	os2 := c10xRawTable(ld, "OS/2")
	for _, lm := range c10xLineMetrics {
		tb := c10xRawTable(ld, lm.table)
		if len(tb) < lm.off+2 || (lm.table == "post" && len(tb) < 32) || (lm.table == "OS/2" && len(os2) < 78) {
			continue
		}
		if lm.off >= 86 && (binary.BigEndian.Uint16(os2) < 2 || len(os2) < 96) {
			continue // taken from the glyph of 'H' / 'x'
		}
		base := int(int16(binary.BigEndian.Uint16(tb[lm.off:])))
		v := face.LineMetric(lm.m)
		ms = append(ms, vh.Tuple(vh.Zi(0), vh.Zi(base), vh.Z(int64(uint32(ot.MustNewTag(lm.tag)))), c10cBits(v)))
		o.Count("line_metric")
	}
	ext, ok := face.FontHExtents()
	hmtx := c10xRawTable(ld, "hmtx")
	hx := vh.App("HX", vh.BytesLit(os2), vh.BytesLit(c10xRawTable(ld, "hhea")), vh.BytesLit(hmtx), vh.Zi(ld.nGlyphs),
		c10cBits(ext.Ascender), c10cBits(ext.Descender), c10cBits(ext.LineGap), vh.Bool(ok))
	coq = vh.App("CMvar", vh.BytesLit(mv), vh.Zi(ld.axes), c10xCoordList(coords), vh.List(ds), vh.List(ms), hx)
	if len(in.Coords) == 0 {
		o.Count("mvar_without_coords")
	}
	return coq, coq, nil
}

func c10xRunApply(o *vh.Out, in c10xInput) (coq, key string, fails []string) {
	pts := make([]font.VerifContourPoint, len(in.Pts))
	for i, p := range in.Pts {
		pts[i] = font.VerifContourPoint{X: float32(p.X), Y: float32(p.Y), On: p.On, IsEnd: p.End}
	}
	shared := make([][]int16, len(in.Shared))
	for i, t := range in.Shared {
		shared[i] = make([]int16, len(t))
		for a, v := range t {
			shared[i][a] = int16(v)
		}
	}
	coords := c10xToCoords(in.Coords)
	out, err := font.VerifGvarApplyRaw(in.Raw, in.Axes, shared, coords, pts)
	moved := 0
	for i := range out {
		if out[i].X != pts[i].X || out[i].Y != pts[i].Y {
			moved++
		}
	}
	switch {
	case err != nil:
		o.Count("apply_rejected")
	case moved == 0:
		o.Count("apply_nothing_moved")
	default:
		o.Count("apply_moved")
	}
	coq = vh.App("CApply", vh.BytesLit(in.Raw), vh.Zi(in.Axes), c10xCoordList(coords), c10xShared(shared), vh.Bool(err != nil),
		c10xBPoints(pts), c10xBPoints(out))
	// the decoding alone, as its own case kind inside the same term would double the bytes: checked by apply_kinds
	return coq, coq, nil
}

func c10xRunGlyph(o *vh.Out, in c10xInput) (coq, key string, fails []string) {
	ld, err := c10xLoad(in.Font)
	if err != nil {
		return c10xSkip, "", []string{"driver: " + err.Error()}
	}
	if len(in.Coords) != ld.axes {
		return c10xSkip, "", []string{"driver: wrong number of coordinates"}
	}
	gvar := c10xRawTable(ld, "gvar")
	shared := c10xSharedRaw(gvar)
	if lib := ld.ft.VerifSharedTuples(); fmt.Sprint(lib) != fmt.Sprint(shared) && len(lib)+len(shared) > 0 {
		fails = append(fails, "shared tuples read by the driver differ from the library's")
	}
	face := font.NewFace(ld.ft)
	coords := c10xToCoords(in.Coords)
	face.SetCoords(coords)
	var gs []string
	for _, g := range in.Gids {
		rec, ok := ld.glyphRaw(g)
		gvd, ok2 := c10xGvdRaw(gvar, g)
		if !ok || !ok2 {
			continue
		}
		all := face.VerifGlyfAllPoints(font.GID(g))
		ext, _ := face.GlyphExtents(font.GID(g))
		hadv, vadv := "(-1)", "(-1)"
		if !ld.ft.VerifHasHVAR() {
			hadv = c10cBits(face.HorizontalAdvance(font.GID(g)))
		}
		if !ld.ft.VerifHasVVAR() {
			vadv = c10cBits(face.VerticalAdvance(font.GID(g)))
		}
		// the decoded tuple data as NewFont stored it
		td, _ := ld.ft.VerifGvarTupleData(font.GID(g))
		tds := make([]string, len(td))
		for i, t := range td {
			tds[i] = vh.Tuple(vh.Bool(t.AllPoints), c10xU16List(t.Points), c10xI16List(t.Deltas))
		}
		gs = append(gs, vh.App("GV", vh.Zi(g), vh.BytesLit(rec), vh.BytesLit(gvd), c10xBPoints(all),
			vh.List([]string{c10cBits(ext.XBearing), c10cBits(ext.YBearing), c10cBits(ext.Width), c10cBits(ext.Height)}),
			hadv, vadv, vh.List(tds)))
		if len(gvd) == 0 {
			o.Count("glyph_without_variation_data")
		} else {
			o.Count("glyph_with_variation_data")
		}
	}
	coq = vh.App("CGlyphs", vh.BytesLit(ld.head), vh.BytesLit(ld.hhea), vh.BytesLit(ld.hmtx), vh.BytesLit(c10xRawTable(ld, "vhea")),
		vh.BytesLit(c10xRawTable(ld, "vmtx")), vh.Zi(ld.ft.VerifGlyfLen()), vh.Zi(ld.axes), c10xCoordList(coords), c10xShared(shared), vh.List(gs))
	if len(gs) == 0 {
		return coq, "", fails
	}
	return coq, coq, fails
}

var _ = bytes.Equal
