package main

import (
	"encoding/json"
	"fmt"

	hb "github.com/go-text/typesetting/harfbuzz"

	"verifharness/internal/vh"
)

// ---- c18arab: the real applyArabicJoining on a real Buffer (code points + unicode props, pre-/post-context),
// against Model/ArabicJoin.v (the loop as written and the pass of the cut theorem); plus the cut statement of C18 on
// the implementation's own outputs, the pieces being run with the other piece's code points in their context. ----

type a18Glyph struct {
	U rune   `json:"u"` // code point
	C int    `json:"c"` // cluster
	M uint32 `json:"m"` // mask
	A uint8  `json:"a"` // complexAux (shaping action)
}

type a18Input struct {
	Glyphs  []a18Glyph `json:"glyphs"`
	Pre     []rune     `json:"pre"`  // text order (the nearest code point last)
	Post    []rune     `json:"post"` // text order (the nearest code point first)
	Rec     bool       `json:"rec"`
	Level   int        `json:"level"`
	Concat  bool       `json:"concat"`
	Tatweel bool       `json:"tatweel"`
	Table   bool       `json:"table"` // send the dumped state table with this case
}

const a18ContextLength = 5 // buffer.go contextLength

// code points per joining type (index = what getJoiningType returns; 6 unused)
var a18Runes = [8][]rune{
	0: {0x0041, 0x0621, 0x0020, 0x200C, 0x0674},         // U: not in the table / explicit U
	1: {0xA872},                                         // L
	2: {0x0627, 0x062F, 0x0631, 0x0648, 0x0629},         // R
	3: {0x0628, 0x0644, 0x0633, 0x0645, 0x0640, 0x200D}, // D and C (tatweel, ZWJ)
	4: {0x0710},                                         // ALAPH
	5: {0x0715, 0x0716, 0x072A},                         // DALATH RISH
	7: {0x064E, 0x0651, 0x0670, 0x034F, 0x0711, 0x200E}, // T: marks (Mn) and format characters
}

func init() {
	drivers["c18arab"] = &driver{
		header: "From TV Require Import Check.C18Arab.",
		shard:  60,
		n: func(tier string) int {
			if tier == "quick" {
				return 600
			}
			return 6000
		},
		decode: func(raw json.RawMessage) (any, error) {
			var in a18Input
			err := json.Unmarshal(raw, &in)
			return in, err
		},
		gen: a18Gen,
		run: a18Run,
	}
}

func a18Rev(x []rune) []rune {
	out := make([]rune, len(x))
	for i, r := range x {
		out[len(x)-1-i] = r
	}
	return out
}

// keeps the contextLength nearest code points (nearest first); lossy = the cut-off part holds the nearest letter
func a18Trunc(nearestFirst []rune) (out []rune, lossy bool) {
	if len(nearestFirst) <= a18ContextLength {
		return nearestFirst, false
	}
	out = nearestFirst[:a18ContextLength]
	for _, r := range out {
		if hb.VerifArabicJoiningType(r) != 7 {
			return out, false
		}
	}
	for _, r := range nearestFirst[a18ContextLength:] {
		if hb.VerifArabicJoiningType(r) != 7 {
			return out, true
		}
	}
	return out, false
}

// runs the real function; pre / post in text order
func a18Apply(in a18Input, glyphs []a18Glyph, pre, post []rune) ([]a18Glyph, bool, string) {
	vb := hb.VerifArabBuf{Level: hb.ClusterLevel(in.Level), HasGlyphFlags: in.Rec, PreContext: a18Rev(pre), PostContext: post}
	if in.Concat {
		vb.Flags |= hb.ProduceUnsafeToConcat
	}
	if in.Tatweel {
		vb.Flags |= hb.ProduceSafeToInsertTatweel
	}
	for _, g := range glyphs {
		vb.Glyphs = append(vb.Glyphs, hb.VerifArabGlyph{Codepoint: g.U, Cluster: g.C, Mask: g.M, Action: g.A})
	}
	out, msg := hb.VerifArabicJoining(vb)
	res := make([]a18Glyph, len(out.Glyphs))
	for i, g := range out.Glyphs {
		res[i] = a18Glyph{U: g.Codepoint, C: g.Cluster, M: g.Mask, A: g.Action}
	}
	return res, out.HasGlyphFlags, msg
}

func a18CoqItems(gs []a18Glyph) string {
	e := make([]string, len(gs))
	for i, g := range gs {
		e[i] = vh.App("A", vh.Zi(g.C), vh.Zi(int(g.M&7)), vh.Zi(int(g.M>>3)), vh.Zi(int(hb.VerifArabicJoiningType(g.U))), vh.Zi(int(g.A)))
	}
	return vh.List(e)
}

func a18CoqCtx(rs []rune) string {
	e := make([]string, len(rs))
	for i, r := range rs {
		e[i] = vh.App("J", vh.Zi(int(hb.VerifArabicJoiningType(r))))
	}
	return vh.List(e)
}

func a18Runes2(gs []a18Glyph) []rune {
	out := make([]rune, len(gs))
	for i, g := range gs {
		out[i] = g.U
	}
	return out
}

func a18Run(o *vh.Out, inAny any) {
	in := inAny.(a18Input)
	out, orec, msg := a18Apply(in, in.Glyphs, in.Pre, in.Post)
	panicked := msg != ""
	var cuts []string
	ncut, lossy := 0, 0
	if !panicked {
		for k := 1; k < len(in.Glyphs); k++ {
			// a cut along cluster values (logical order): everything on the left below the cluster of glyph k
			c := in.Glyphs[k].C
			if in.Glyphs[k-1].C >= c {
				continue
			}
			present, flagged := false, false
			for _, g := range out {
				if g.C == c {
					present = true
					if g.M&1 != 0 {
						flagged = true
					}
				}
			}
			if !present || flagged {
				continue
			}
			// the contexts the whole shaper's buffer would hold: the other piece's code points, then the outer context
			post1, l1 := a18Trunc(append(a18Runes2(in.Glyphs[k:]), in.Post...))
			pre2nf, l2 := a18Trunc(append(a18Rev(a18Runes2(in.Glyphs[:k])), a18Rev(in.Pre)...))
			if l1 || l2 {
				// contextLength code points do not reach the nearest letter: the piece gets what a client of AddRunes
				// really gets.  The cut is run like any other; a failure with a truncated all-transparent pre-context is
				// classified in Check/C18Arab.v (kind 12, known finding C18-F98).
				lossy++
			}
			a, _, m1 := a18Apply(in, in.Glyphs[:k], in.Pre, post1)
			b, _, m2 := a18Apply(in, in.Glyphs[k:], a18Rev(pre2nf), in.Post)
			if m1 != "" || m2 != "" {
				panicked, msg = true, "piece: "+m1+m2
				break
			}
			cuts = append(cuts, vh.Tuple(fmt.Sprintf("%d%%nat", k), a18CoqItems(a), a18CoqItems(b)))
			ncut++
		}
	}
	tab := "[]"
	if in.Table {
		t := hb.VerifArabicStateTable()
		rows := make([]string, len(t))
		for i, row := range t {
			es := make([]string, len(row))
			for j, e := range row {
				es[j] = vh.Tuple(vh.Zi(e[0]), vh.Zi(e[1]), vh.Zi(e[2]))
			}
			rows[i] = vh.List(es)
		}
		tab = vh.List(rows)
	}
	coq := vh.App("mkAC", vh.Bool(in.Concat), vh.Bool(in.Tatweel), a18CoqCtx(in.Pre), a18CoqCtx(in.Post),
		a18CoqItems(in.Glyphs), vh.Bool(in.Rec), a18CoqItems(out), vh.Bool(orec), vh.Bool(panicked), vh.List(cuts), tab)
	joined := false
	for _, g := range out {
		if g.A != 0 && g.A != 7 {
			joined = true
		}
	}
	key := ""
	if joined || ncut > 0 {
		key = fmt.Sprintf("%v/%v/%v/%v/%v/%v", in.Glyphs, in.Pre, in.Post, in.Concat, in.Tatweel, in.Level)
	}
	classes := []string{"arab"}
	if joined {
		classes = append(classes, "arab/joined", "nontrivial")
	}
	if ncut > 0 {
		classes = append(classes, "arab/cut")
	}
	if lossy > 0 {
		classes = append(classes, "arab/cut-context-truncated")
	}
	if len(in.Pre) > 0 || len(in.Post) > 0 {
		classes = append(classes, "arab/context")
	}
	idx := o.Add(in, coq, key, classes...)
	if panicked {
		o.Fail(idx, "panic", msg)
	}
	// the joining types the generator intends are the ones the library computes
	for ty, rs := range a18Runes {
		for _, r := range rs {
			if int(hb.VerifArabicJoiningType(r)) != ty {
				o.Fail(idx, "generator", fmt.Sprintf("code point %04X has joining type %d, expected %d", r, hb.VerifArabicJoiningType(r), ty))
			}
		}
	}
}

// ---- generator ----

func a18Rune(r *vh.Rand) rune {
	var ty int
	switch x := r.Intn(100); {
	case x < 12:
		ty = 0
	case x < 20:
		ty = 1
	case x < 35:
		ty = 2
	case x < 60:
		ty = 3
	case x < 70:
		ty = 4
	case x < 78:
		ty = 5
	default:
		ty = 7
	}
	rs := a18Runes[ty]
	return rs[r.Intn(len(rs))]
}

func a18Gen(r *vh.Rand, tier string, n int, emit func(any)) {
	maxN := 7
	if tier != "quick" {
		maxN = 9
	}
	for i := 0; i < n; i++ {
		var in a18Input
		in.Table = i%50 == 0
		ng := r.Range(0, maxN)
		if r.Chance(85) && ng < 2 {
			ng = r.Range(2, maxN)
		}
		c := r.Range(0, 3)
		for j := 0; j < ng; j++ {
			if j > 0 && r.Chance(70) {
				c += r.Range(1, 3)
			}
			g := a18Glyph{U: a18Rune(r), C: c, M: 8, A: uint8(r.Intn(10))}
			switch r.Intn(10) {
			case 0:
				g.M = 0
			case 1:
				g.M = 16
			}
			if r.Chance(6) {
				g.M |= uint32(r.Range(1, 7)) // pre-set glyph flags
				in.Rec = true
			}
			in.Glyphs = append(in.Glyphs, g)
		}
		if r.Chance(60) {
			for j, k := 0, r.Range(1, 3); j < k; j++ {
				in.Pre = append(in.Pre, a18Rune(r))
			}
		}
		if r.Chance(60) {
			for j, k := 0, r.Range(1, 3); j < k; j++ {
				in.Post = append(in.Post, a18Rune(r))
			}
		}
		if r.Chance(4) {
			in.Rec = true
		}
		in.Level = r.Intn(3) // on buffers in logical order the three levels flag the same glyphs
		in.Concat = r.Chance(15)
		in.Tatweel = r.Chance(12)
		emit(in)
	}
}
