package main

import (
	"bytes"
	"encoding/json"
	"fmt"
	"math"
	"strings"

	"github.com/go-text/typesetting-utils/opentype"
	"github.com/go-text/typesetting/di"
	"github.com/go-text/typesetting/font"
	"github.com/go-text/typesetting/harfbuzz"
	"github.com/go-text/typesetting/language"
	"github.com/go-text/typesetting/shaping"
	"golang.org/x/image/math/fixed"

	"verifharness/internal/vh"
)

// Driver c12conv (property C12, conversion part of HarfbuzzShaper.Shape).
// Every case is one REAL call of Shape through the hook shaping.VerifShapeRaw, which hands back the objects the
// conversion loop has just read: the shaper's buffer (Info/Pos as the engine left them) and the cached harfbuzz font
// with the scale Shape set.  The raw material (positions, the extents of every glyph id and the font extents read from
// that very font object) is given to the model Model/ShapeConv.v, whose Output is compared field by field with the
// Output of Shape (Check/C12conv.v, kind 1).

type c12convInput struct {
	Font  string `json:"font"` // file of font/testdata, or "u:<path>" inside typesetting-utils/opentype
	Str   string `json:"str"`
	Start int    `json:"start"`
	End   int    `json:"end"`
	Size  int    `json:"size"` // 26.6
	Dir   int    `json:"dir"`
}

func init() {
	drivers["c12conv"] = &driver{
		header: "From TV Require Import Check.C12conv.",
		shard:  40,
		n: func(tier string) int {
			if tier == "quick" {
				return 400
			}
			return 6000
		},
		decode: func(raw json.RawMessage) (any, error) {
			var in c12convInput
			err := json.Unmarshal(raw, &in)
			return in, err
		},
		gen: c12convGen,
		run: c12convRun,
	}
}

var c12convFonts = []string{"Roboto-Regular.ttf", "Amiri-Regular.ttf", "UbuntuMono-R.ttf", "Selawik-VF-Subset.ttf",
	"u:common/mplus-1p-regular.ttf", "u:common/NotoSansCJKjp-VF.otf", "u:common/NotoSansMongolian-Regular.ttf",
	"u:common/Raleway-v4020-Regular.otf", "u:bitmap/NotoColorEmoji.ttf", "u:bitmap/IBM3161-bitmap.otb", "u:toys/Sbix1.ttf"}

var c12convTexts = []struct {
	fonts []int // preferred fonts, nil = any
	s     string
}{
	{nil, "Hello world ! : the end"},
	{[]int{0, 7}, "Hello final office affluent AVATAR To."},
	{nil, "a b  c d_"},
	{[]int{0, 7}, "éà x̂̃y"},
	{[]int{1}, "تثذرزسشص لمنهويء"},
	{[]int{1}, "مَرْحَبًا بِكَ"},
	{[]int{1}, "abc تثذ 123"},
	{[]int{4, 5}, "日本語、テキスト。(縦)ー"},
	{[]int{4, 5}, "ab 日本 12"},
	{[]int{6}, "ᠮᠣᠩᠭᠣᠯ ᠪᠢᠴᠢᠭ"},
	{[]int{8, 10}, "\U0001F600a\U0001F601 \U0001F44D\U0001F3FD"},
	{[]int{9}, "IBM 3161"},
	{[]int{2}, "if (a != b) { return; }"},
	{nil, "x"},
	{nil, " "},
	{nil, "A\tB\nC‍­"},
	{[]int{3}, "Selawik variable"},
	{nil, "￿\U000E0001͸"}, // glyphs the font does not have
}

// sizes inside the stated range (<= 4096 px)
var c12convSizes = []int{1, 63, 64, 65, 100, 127, 640, 16 * 64, 16*64 + 37, 72 * 64, 72*64 + 1, 999*64 + 63, 1000 * 64, 4095*64 + 13, 4096 * 64}

// sizes outside: the 26.6 conversion wraps (the model follows the wrap)
var c12convBigSizes = []int{4097 * 64, 20000*64 + 5, 1 << 24, 1<<26 + 1, 1 << 28, 1<<30 + 77, 1<<31 - 64, 1<<31 - 63, 1<<31 - 1, 0, -64, -1000}

func c12convGen(r *vh.Rand, tier string, n int, emit func(any)) {
	for i := 0; i < n; i++ {
		t := c12convTexts[i%len(c12convTexts)]
		f := r.Intn(len(c12convFonts))
		if t.fonts != nil && !r.Chance(15) {
			f = t.fonts[r.Intn(len(t.fonts))]
		}
		runes := []rune(t.s)
		in := c12convInput{Font: c12convFonts[f], Str: t.s, Start: 0, End: len(runes), Dir: c12Dirs[r.Intn(len(c12Dirs))],
			Size: c12convSizes[r.Intn(len(c12convSizes))]}
		switch {
		case r.Chance(25):
			in.Size = r.Range(1, 4096*64)
		case r.Chance(6):
			in.Size = c12convBigSizes[r.Intn(len(c12convBigSizes))]
		}
		if r.Chance(20) && len(runes) > 1 {
			in.Start = r.Range(0, len(runes)-1)
			in.End = r.Range(in.Start+1, len(runes))
		}
		if r.Chance(3) { // unusual bounds: empty, reversed, outside (C01 covers their meaning; the conversion must still agree)
			in.Start, in.End = r.Range(-1, len(runes)+1), r.Range(-1, len(runes)+1)
		}
		if r.Chance(4) {
			in.Dir |= 16 << uint(r.Intn(4)) // undefined high bits of di.Direction are carried along
		}
		emit(in)
	}
}

var c12convFaceCache = map[string]*font.Face{}

func c12convFace(name string) (*font.Face, error) {
	if !strings.HasPrefix(name, "u:") {
		return c12Face(name)
	}
	if f, ok := c12convFaceCache[name]; ok {
		return f, nil
	}
	b, err := opentype.Files.ReadFile(name[2:])
	if err != nil {
		return nil, err
	}
	f, err := font.ParseTTF(bytes.NewReader(b))
	if err != nil {
		return nil, err
	}
	c12convFaceCache[name] = f
	return f, nil
}

func c12convShapingInput(face *font.Face, runes []rune, start, end int, dir di.Direction, size fixed.Int26_6) shaping.Input {
	script := language.Latin
	lo, hi := start, end
	if hi < lo {
		lo, hi = hi, lo
	}
	lo, hi = c12convClamp(lo, 0, len(runes)), c12convClamp(hi, 0, len(runes))
	for _, r := range runes[lo:hi] { // first rune with a real script
		if s := language.LookupScript(r); s != language.Common && s != language.Inherited && s != language.Unknown {
			script = s
			break
		}
	}
	return shaping.Input{Text: runes, RunStart: start, RunEnd: end, Direction: dir, Face: face, Size: size,
		Script: script, Language: language.NewLanguage("en")}
}

func c12convClamp(v, lo, hi int) int {
	if v < lo {
		return lo
	}
	if v > hi {
		return hi
	}
	return v
}

// c12convF32 prints a finite float32 as the exact dyadic (mkF m e), value = m * 2^e.
func c12convF32(f float32) (string, bool) {
	x := float64(f)
	if math.IsNaN(x) || math.IsInf(x, 0) {
		return "(mkF 0 0)", false
	}
	if x == 0 {
		return "(mkF 0 0)", true
	}
	frac, exp := math.Frexp(x) // x = frac * 2^exp, 0.5 <= |frac| < 1; a float32 has 24 significant bits
	m := frac * (1 << 24)
	if m != math.Trunc(m) {
		return "(mkF 0 0)", false
	}
	return vh.App("mkF", vh.Z(int64(m)), vh.Zi(exp-24)), true
}

var c12convShaper = func() *shaping.HarfbuzzShaper {
	var s shaping.HarfbuzzShaper
	s.SetFontCacheSize(4) // the hook reads the font Shape used back from the shaper's cache
	return &s
}()

const c12convEmpty = "(CConv 0 0 0 0 0 0 0 0 [] [] [] (mkOut 0 [] (mkBounds 0 0 0) 0) (mkBounds 0 0 0) [] 0 0 0 None)"

func c12convRun(o *vh.Out, inAny any) {
	in := inAny.(c12convInput)
	face, err := c12convFace(in.Font)
	if err != nil {
		idx := o.Add(in, c12convEmpty, "", "font missing")
		o.Fail(idx, "setup", err.Error())
		return
	}
	runes := []rune(in.Str)
	dir := di.Direction(in.Dir)
	size := fixed.Int26_6(in.Size)
	var (
		out      shaping.Output
		buf      *harfbuzz.Buffer
		hf       *harfbuzz.Font
		panicked any
	)
	input := c12convShapingInput(face, runes, in.Start, in.End, dir, size)
	func() {
		defer func() { panicked = recover() }()
		out, buf, hf = c12convShaper.VerifShapeRaw(input)
	}()
	if panicked != nil {
		idx := o.Add(in, c12convEmpty, "", "shape panic")
		o.Fail(idx, "panic", fmt.Sprint(panicked))
		return
	}
	if hf == nil || buf == nil {
		idx := o.Add(in, c12convEmpty, "", "hook")
		o.Fail(idx, "setup", "VerifShapeRaw returned no font/buffer")
		return
	}
	// ---- raw material, read from the objects Shape used (before anything else touches the shaper)
	if len(buf.Info) != len(buf.Pos) {
		idx := o.Add(in, c12convEmpty, "", "hook")
		o.Fail(idx, "setup", "len(Info) != len(Pos)")
		return
	}
	hb := make([]string, len(buf.Info))
	seen := map[harfbuzz.GID]bool{}
	var exts []string
	missing, exact := 0, true
	inExact := func(v int32) {
		if v < -(1<<25) || v >= 1<<25 {
			exact = false
		}
	}
	for i, info := range buf.Info {
		p := buf.Pos[i]
		hb[i] = vh.App("mkHB", vh.Z(int64(info.Glyph)), vh.Z(int64(info.Mask)), vh.Zi(info.Cluster),
			vh.Z(int64(p.XAdvance)), vh.Z(int64(p.YAdvance)), vh.Z(int64(p.XOffset)), vh.Z(int64(p.YOffset)))
		inExact(p.XAdvance)
		inExact(p.YAdvance)
		inExact(p.XOffset)
		inExact(p.YOffset)
		if seen[info.Glyph] {
			continue
		}
		seen[info.Glyph] = true
		e, ok := hf.GlyphExtents(info.Glyph)
		es := "None"
		if ok {
			es = vh.Some(vh.App("mkExt", vh.Z(int64(e.XBearing)), vh.Z(int64(e.YBearing)), vh.Z(int64(e.Width)), vh.Z(int64(e.Height))))
			inExact(e.XBearing)
			inExact(e.YBearing)
			inExact(e.Width)
			inExact(e.Height)
		} else {
			missing++
		}
		exts = append(exts, vh.Tuple(vh.Z(int64(info.Glyph)), es))
	}
	var fexts []string
	integral := true
	for _, d := range []harfbuzz.Direction{harfbuzz.LeftToRight, harfbuzz.RightToLeft, harfbuzz.TopToBottom, harfbuzz.BottomToTop} {
		fe := hf.ExtentsForDirection(d)
		a, ok1 := c12convF32(fe.Ascender)
		b, ok2 := c12convF32(fe.Descender)
		c, ok3 := c12convF32(fe.LineGap)
		if !(ok1 && ok2 && ok3) {
			idx := o.Add(in, c12convEmpty, "", "non-finite font extents")
			o.Fail(idx, "setup", fmt.Sprintf("font extents not finite: %v", fe))
			return
		}
		for _, v := range []float32{fe.Ascender, fe.Descender, fe.LineGap} {
			if float64(v) != math.Trunc(float64(v)) {
				integral = false
			}
			if v < -(1<<25) || v >= 1<<25 {
				exact = false
			}
		}
		fexts = append(fexts, vh.Tuple(vh.Zi(int(d)), vh.App("mkFE", a, b, c)))
	}
	// independent reading of "line bounds are the font's extents under the same scale as the glyph advances":
	// the face's own extents (font units) times scale / upem, rounded; the documented conventions (0.8 / 0.2 of the
	// em horizontally, half the em on each side vertically) when the face has none
	for _, d := range []harfbuzz.Direction{harfbuzz.LeftToRight, harfbuzz.RightToLeft, harfbuzz.TopToBottom, harfbuzz.BottomToTop} {
		got := hf.ExtentsForDirection(d)
		var want font.FontExtents
		upem := float32(face.Upem())
		sc := func(v float32, scale int32) float32 { return float32(int32(math.Round(float64(v * float32(scale) / upem)))) }
		if d == harfbuzz.LeftToRight || d == harfbuzz.RightToLeft {
			fe, ok := face.FontHExtents()
			if ok {
				want = font.FontExtents{Ascender: sc(fe.Ascender, hf.YScale), Descender: sc(fe.Descender, hf.YScale), LineGap: sc(fe.LineGap, hf.YScale)}
			} else {
				a := float32(hf.YScale) * 0.8
				want = font.FontExtents{Ascender: a, Descender: a - float32(hf.YScale)}
			}
		} else {
			fe, ok := face.FontVExtents()
			if ok {
				want = font.FontExtents{Ascender: sc(fe.Ascender, hf.XScale), Descender: sc(fe.Descender, hf.XScale), LineGap: sc(fe.LineGap, hf.XScale)}
			} else {
				a := float32(hf.XScale) * 0.5
				want = font.FontExtents{Ascender: a, Descender: a - float32(hf.XScale)}
			}
		}
		if got != want {
			idx := o.Add(in, c12convEmpty, "", "font extents")
			o.Fail(idx, "oracle", fmt.Sprintf("ExtentsForDirection(%d) = %v, the face's extents under the scale of the advances (scale %d/%d, upem %v) are %v", d, got, hf.XScale, hf.YScale, upem, want))
			return
		}
	}
	xscale, yscale, hbdir := hf.XScale, hf.YScale, buf.Props.Direction
	ids := make([]string, len(out.Glyphs))
	for i, g := range out.Glyphs {
		ids[i] = vh.Tuple(vh.Z(int64(g.GlyphID)), vh.Z(int64(g.Mask)))
	}
	if out.Face != face {
		idx := o.Add(in, c12convEmpty, "", "face")
		o.Fail(idx, "oracle", "Output.Face is not Input.Face")
		return
	}
	outCoq, lineCoq := c12Coq(&out), c12Bounds(out.LineBounds)
	// ---- sideways: the same input shaped on the horizontal axis (a fresh engine run)
	horiz := "None"
	if dir.IsSideways() {
		var h shaping.Output
		hinput := c12convShapingInput(face, runes, in.Start, in.End, dir&^14, size)
		func() {
			defer func() { panicked = recover() }()
			h = c12convShaper.Shape(hinput)
		}()
		if panicked != nil {
			idx := o.Add(in, c12convEmpty, "", "shape panic")
			o.Fail(idx, "panic", fmt.Sprint(panicked))
			return
		}
		horiz = vh.Some(vh.Tuple(c12Coq(&h), c12Bounds(h.LineBounds)))
	}
	coq := vh.App("CConv", vh.Zi(in.Size), vh.Zi(in.Dir), vh.Zi(in.Start), vh.Zi(in.End),
		vh.Zi(shaping.VerifScaleShift), vh.Z(int64(xscale)), vh.Z(int64(yscale)), vh.Zi(int(hbdir)),
		vh.List(hb), vh.List(exts), vh.List(fexts),
		outCoq, lineCoq, vh.List(ids), vh.Zi(out.Runes.Offset), vh.Zi(out.Runes.Count), vh.Z(int64(out.Size)), horiz)
	key := ""
	if len(out.Glyphs) > 0 {
		key = coq
	}
	sizeClass := "size<=4096px"
	if in.Size > 4096*64 || in.Size <= 0 {
		sizeClass = "size outside (0,4096px]"
	}
	o.Add(in, coq, key, "conv", "conv font="+in.Font, fmt.Sprintf("conv dir=%d", in.Dir&15), fmt.Sprintf("conv glyphs=%d", bucket(len(out.Glyphs))),
		fmt.Sprintf("conv sideways=%v", dir.IsSideways()), fmt.Sprintf("conv missing-extents=%v", missing > 0),
		fmt.Sprintf("conv values-in-exact-range=%v", exact), fmt.Sprintf("conv integral-font-extents=%v", integral), "conv "+sizeClass,
		fmt.Sprintf("conv fractional-size=%v", in.Size%64 != 0))
}
