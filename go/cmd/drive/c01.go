package main

import (
	"bytes"
	"encoding/json"
	"fmt"
	"sync"

	"github.com/go-text/typesetting-utils/opentype"
	"github.com/go-text/typesetting/di"
	"github.com/go-text/typesetting/font"
	"github.com/go-text/typesetting/language"
	"github.com/go-text/typesetting/shaping"
	"golang.org/x/image/math/fixed"

	"verifharness/internal/vh"
)

// ---- c01count: countClusters, clamp and the Shape glue ---------------------------------------

type c01CountInput struct {
	Kind     string `json:"kind"` // count | clamp | shape
	Clusters []int  `json:"clusters,omitempty"`
	TextLen  int    `json:"text_len,omitempty"`
	RTL      bool   `json:"rtl,omitempty"`
	// clamp
	V, Lo, Hi int
	// shape
	Text     []rune `json:"text,omitempty"`
	RunStart int    `json:"run_start,omitempty"`
	RunEnd   int    `json:"run_end,omitempty"`
	Dir      int    `json:"dir,omitempty"` // di.Direction value
	Font     string `json:"font,omitempty"`
}

func init() {
	drivers["c01count"] = &driver{
		header: "From TV Require Import Check.C01.",
		shard:  250,
		n: func(tier string) int {
			if tier == "quick" {
				return 1500
			}
			return 15000
		},
		decode: func(raw json.RawMessage) (any, error) {
			var in c01CountInput
			err := json.Unmarshal(raw, &in)
			return in, err
		},
		gen: c01CountGen,
		run: c01CountRun,
	}
}

var (
	c01FaceMu sync.Mutex
	c01Faces  = map[string]*font.Face{}
)

func c01Face(path string) *font.Face {
	c01FaceMu.Lock()
	defer c01FaceMu.Unlock()
	if f, ok := c01Faces[path]; ok {
		return f
	}
	b, err := opentype.Files.ReadFile(path)
	if err != nil {
		panic(err)
	}
	f, err := font.ParseTTF(bytes.NewReader(b))
	if err != nil {
		panic(err)
	}
	c01Faces[path] = f
	return f
}

var c01ShapeFonts = []string{"common/Roboto-BoldItalic.ttf", "common/Mada-VF.ttf", "common/Raleway-v4020-Regular.otf"}

var c01Alphabet = []rune{
	'a', 'b', 'f', 'i', 'l', 'A', 'V', ' ', '1', '.', '\n', '\t',
	0x0301, 0x0308, 0x0323, 0x034F, // marks, CGJ
	0x200C, 0x200D, 0x200B, 0x00AD, 0xFE0F, 0x2060, // ZWNJ, ZWJ, ZWSP, SHY, VS16, WJ
	0x0627, 0x0644, 0x0645, 0x0628, 0x064E, 0x0651, 0x0640, // Arabic + marks + tatweel
	0x05D0, 0x05D1, 0x05B8, // Hebrew
	0x0915, 0x094D, 0x0937, 0x093F, // Devanagari
	0x0E01, 0x0E33, // Thai
	0x1F600, 0x1F3FB, 0x0378, 0xFFFF, 0x10FFFF, 0xD7FF, // emoji, modifier, unassigned, noncharacter
}

func c01MonotoneClusters(r *vh.Rand, rtl bool) ([]int, int) {
	groups := r.Range(0, 8)
	var cls []int
	c := r.Range(0, 3)
	if r.Chance(30) {
		c = 0
	}
	for i := 0; i < groups; i++ {
		k := 1
		if r.Chance(40) {
			k = r.Range(1, 4)
		}
		for j := 0; j < k; j++ {
			cls = append(cls, c)
		}
		c += r.Range(1, 3)
	}
	textLen := c + r.Range(-1, 2) // the last cluster value is < c
	if textLen < c {
		textLen = c
	}
	if groups == 0 {
		textLen = r.Range(0, 5)
	}
	if rtl {
		for i, j := 0, len(cls)-1; i < j; i, j = i+1, j-1 {
			cls[i], cls[j] = cls[j], cls[i]
		}
	}
	return cls, textLen
}

func c01CountGen(r *vh.Rand, tier string, n int, emit func(any)) {
	// exhaustive small: every cluster list over {0,1,2} of length <= 4, both progressions, textLen 3
	var rec func(prefix []int)
	rec = func(prefix []int) {
		for _, rtl := range []bool{false, true} {
			emit(c01CountInput{Kind: "count", Clusters: append([]int(nil), prefix...), TextLen: 3, RTL: rtl})
		}
		if len(prefix) == 4 {
			return
		}
		for c := 0; c <= 2; c++ {
			rec(append(prefix, c))
		}
	}
	rec(nil)
	for v := -2; v <= 4; v++ {
		for lo := -1; lo <= 2; lo++ {
			for hi := -1; hi <= 3; hi++ {
				emit(c01CountInput{Kind: "clamp", V: v, Lo: lo, Hi: hi})
			}
		}
	}
	nShape := n / 4
	for i := 0; i < n-nShape; i++ {
		rtl := r.Bool()
		cls, textLen := c01MonotoneClusters(r, rtl)
		if r.Chance(12) { // malformed stream (correspondence only): not monotone, -1 sentinel values, short textLen
			for j := range cls {
				if r.Chance(40) {
					cls[j] = r.Range(-1, textLen+1)
				}
			}
			if r.Chance(30) {
				textLen = r.Range(-1, textLen)
			}
		}
		emit(c01CountInput{Kind: "count", Clusters: cls, TextLen: textLen, RTL: rtl})
	}
	for i := 0; i < nShape; i++ {
		L := r.Range(0, 10)
		text := make([]rune, L)
		for j := range text {
			text[j] = c01Alphabet[r.Intn(len(c01Alphabet))]
		}
		s, e := r.Range(0, L), r.Range(0, L)
		if s > e && !r.Chance(10) {
			s, e = e, s
		}
		if r.Chance(8) { // bounds outside the text (correspondence only)
			s, e = r.Range(-2, L+2), r.Range(-2, L+3)
		}
		if r.Chance(35) {
			s, e = 0, L
		}
		dir := r.Intn(4)
		if dir >= 2 && r.Chance(50) {
			dir |= 4 | 8 // sideways
		} else if dir >= 2 && r.Chance(30) {
			dir |= 4 // upright, orientation set
		}
		emit(c01CountInput{Kind: "shape", Text: text, RunStart: s, RunEnd: e, Dir: dir,
			Font: c01ShapeFonts[r.Intn(len(c01ShapeFonts))]})
	}
}

func c01Triples(gs []shaping.Glyph) []string {
	out := make([]string, len(gs))
	for i, g := range gs {
		out[i] = vh.Tuple(vh.Zi(g.ClusterIndex), vh.Zi(g.RuneCount), vh.Zi(g.GlyphCount))
	}
	return out
}

func c01CountRun(o *vh.Out, inAny any) {
	in := inAny.(c01CountInput)
	switch in.Kind {
	case "clamp":
		r := shaping.VerifClamp(in.V, in.Lo, in.Hi)
		coq := vh.App("CClamp", vh.Zi(in.V), vh.Zi(in.Lo), vh.Zi(in.Hi), vh.Zi(r))
		o.Add(in, coq, coq, "clamp")
	case "count":
		gs := make([]shaping.Glyph, len(in.Clusters))
		for i, c := range in.Clusters {
			gs[i].ClusterIndex = c
			gs[i].RuneCount, gs[i].GlyphCount = -7, -7 // stale values must be overwritten
		}
		var panicked any
		func() {
			defer func() { panicked = recover() }()
			shaping.VerifCountClusters(gs, in.TextLen, di.Progression(in.RTL))
		}()
		coq := vh.App("CCount", vh.IntList(in.Clusters), vh.Zi(in.TextLen), vh.Bool(in.RTL), vh.List(c01Triples(gs)))
		key := ""
		if len(in.Clusters) > 0 {
			key = coq
		}
		idx := o.Add(in, coq, key, "count", fmt.Sprintf("count:nglyphs=%d", bucket(len(in.Clusters))), fmt.Sprintf("count:rtl=%v", in.RTL))
		if panicked != nil {
			o.Fail(idx, "panic", fmt.Sprint(panicked))
		}
	case "shape":
		face := c01Face(in.Font)
		var out shaping.Output
		var panicked any
		func() {
			defer func() { panicked = recover() }()
			var sh shaping.HarfbuzzShaper
			out = sh.Shape(shaping.Input{
				Text: in.Text, RunStart: in.RunStart, RunEnd: in.RunEnd, Direction: di.Direction(in.Dir),
				Face: face, Size: fixed.I(16), Script: language.LookupScript(firstStrong(in.Text)), Language: "en",
			})
		}()
		rtl := di.Direction(in.Dir).Progression() == di.TowardTopLeft
		coq := vh.App("CShape", vh.Zi(len(in.Text)), vh.Zi(in.RunStart), vh.Zi(in.RunEnd), vh.Bool(rtl),
			vh.Bool(panicked != nil), vh.List(c01Triples(out.Glyphs)), vh.Zi(out.Runes.Offset), vh.Zi(out.Runes.Count))
		key := ""
		if len(out.Glyphs) > 0 {
			key = coq
		}
		idx := o.Add(in, coq, key, "shape", fmt.Sprintf("shape:dir=%d", in.Dir))
		if panicked != nil {
			o.Fail(idx, "panic", fmt.Sprint(panicked))
		}
	default:
		panic("c01count: unknown kind " + in.Kind)
	}
}

func firstStrong(text []rune) rune {
	for _, r := range text {
		s := language.LookupScript(r)
		if s.Strong() && s != language.Unknown {
			return r
		}
	}
	return 'a'
}
