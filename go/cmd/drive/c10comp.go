package main

import (
	"bytes"
	"encoding/binary"
	"encoding/json"
	"fmt"
	"math"
	"sort"
	"strings"

	"github.com/go-text/typesetting/font"
	ot "github.com/go-text/typesetting/font/opentype"
	"github.com/go-text/typesetting/font/opentype/tables"

	"verifharness/internal/vh"
)

// C10, composite glyphs.  The Coq model (Model/Composite.v) decodes the raw glyf records of a glyph and of every glyph
// reachable through its component records, computes in exact binary32 arithmetic, and must reproduce bit for bit the
// points (with phantoms) and the outline segments the library returns.

type c10cSynth struct {
	Upem   int      `json:"upem"`
	Recs   [][]byte `json:"recs"` // glyf record of glyph i
	NLongH int      `json:"nlong_h"`
	Hmtx   []byte   `json:"hmtx"`
	NLongV int      `json:"nlong_v"`
	Vmtx   []byte   `json:"vmtx,omitempty"` // nil: no vhea/vmtx
	// vertical metrics cases (c10vm)
	Vorg   []byte `json:"vorg,omitempty"`
	Os2    []byte `json:"os2,omitempty"`
	Asc    int    `json:"asc,omitempty"` // hhea ascender / descender
	Desc   int    `json:"desc,omitempty"`
	NoGlyf bool   `json:"no_glyf,omitempty"`
}
type c10cInput struct {
	Kind  string     `json:"kind"` // font | synth | f32
	Font  string     `json:"font,omitempty"`
	Gids  []int      `json:"gids,omitempty"`
	Synth *c10cSynth `json:"synth,omitempty"`
	Op    int        `json:"op,omitempty"`
	Args  []uint32   `json:"args,omitempty"`
}

func init() {
	drivers["c10comp"] = &driver{
		header: "From TV Require Import Check.C10comp.",
		shard:  10,
		n: func(tier string) int {
			if tier == "quick" {
				return 300
			}
			return 30000
		},
		decode: func(raw json.RawMessage) (any, error) {
			var in c10cInput
			err := json.Unmarshal(raw, &in)
			return in, err
		},
		gen: c10cGen,
		run: c10cRun,
	}
}

// ---- a minimal sfnt writer ------------------------------------------------------------------------

func c10BuildSfnt(tabs map[string][]byte) []byte {
	var tags []string
	for t := range tabs {
		tags = append(tags, t)
	}
	sort.Strings(tags)
	n := len(tags)
	var out bytes.Buffer
	w16 := func(v int) { out.Write([]byte{byte(v >> 8), byte(v)}) }
	w32 := func(v int) { out.Write([]byte{byte(v >> 24), byte(v >> 16), byte(v >> 8), byte(v)}) }
	w32(0x00010000)
	w16(n)
	es := 0
	for 1<<(es+1) <= n {
		es++
	}
	w16(16 << es)
	w16(es)
	w16(16*n - 16<<es)
	off := 12 + 16*n
	for _, t := range tags {
		out.WriteString(t)
		w32(0)
		w32(off)
		w32(len(tabs[t]))
		off += (len(tabs[t]) + 3) &^ 3
	}
	for _, t := range tags {
		out.Write(tabs[t])
		for p := len(tabs[t]); p%4 != 0; p++ {
			out.WriteByte(0)
		}
	}
	return out.Bytes()
}

func c10cSynthFile(s *c10cSynth) []byte {
	n := len(s.Recs)
	be16 := func(v int) []byte { return []byte{byte(v >> 8), byte(v)} }
	head := make([]byte, 54)
	copy(head[0:], []byte{0, 1, 0, 0})
	copy(head[12:], []byte{0x5F, 0x0F, 0x3C, 0xF5})
	copy(head[18:], be16(s.Upem))
	copy(head[50:], be16(1)) // long loca
	maxp := append([]byte{0, 0, 0x50, 0}, be16(n)...)
	hhea := make([]byte, 36)
	copy(hhea[0:], []byte{0, 1, 0, 0})
	copy(hhea[34:], be16(s.NLongH))
	copy(hhea[4:], be16(s.Asc&0xFFFF))
	copy(hhea[6:], be16(s.Desc&0xFFFF))
	var glyf, loca bytes.Buffer
	for _, r := range s.Recs {
		binary.Write(&loca, binary.BigEndian, uint32(glyf.Len()))
		glyf.Write(r)
	}
	binary.Write(&loca, binary.BigEndian, uint32(glyf.Len()))
	cmap := []byte{0, 0, 0, 1, 0, 3, 0, 1, 0, 0, 0, 12,
		0, 4, 0, 24, 0, 0, 0, 2, 0, 2, 0, 0, 0, 0, 0xFF, 0xFF, 0, 0, 0xFF, 0xFF, 0, 1, 0, 0}
	tabs := map[string][]byte{"head": head, "maxp": maxp, "hhea": hhea, "hmtx": s.Hmtx, "glyf": glyf.Bytes(),
		"loca": loca.Bytes(), "cmap": cmap}
	if s.Vmtx != nil {
		vhea := make([]byte, 36)
		copy(vhea[0:], []byte{0, 1, 0x10, 0})
		copy(vhea[34:], be16(s.NLongV))
		tabs["vhea"], tabs["vmtx"] = vhea, s.Vmtx
	}
	if s.Vorg != nil {
		tabs["VORG"] = s.Vorg
	}
	if s.Os2 != nil {
		tabs["OS/2"] = s.Os2
	}
	if s.NoGlyf {
		delete(tabs, "glyf")
		delete(tabs, "loca")
	}
	return c10BuildSfnt(tabs)
}

// ---- composite closure (driver's own walk of the component records, only to know which records to hand over) ----

func c10cComponents(raw []byte) []int {
	if len(raw) < 10 || int16(binary.BigEndian.Uint16(raw)) >= 0 {
		return nil
	}
	src := raw[10:]
	var out []int
	for {
		if len(src) < 4 {
			return out
		}
		flags := binary.BigEndian.Uint16(src)
		out = append(out, int(binary.BigEndian.Uint16(src[2:])))
		sz := 6
		if flags&1 != 0 {
			sz = 8
		}
		switch {
		case flags&8 != 0:
			sz += 2
		case flags&0x40 != 0:
			sz += 4
		case flags&0x80 != 0:
			sz += 8
		}
		if len(src) < sz || flags&0x20 == 0 {
			return out
		}
		src = src[sz:]
	}
}

func c10cClosure(rawOf func(int) ([]byte, bool), roots []int) map[int][]byte {
	out := map[int][]byte{}
	var walk func(g, depth int)
	walk = func(g, depth int) {
		if depth > 22 {
			return
		}
		raw, ok := rawOf(g)
		if !ok {
			return
		}
		if _, seen := out[g]; !seen {
			out[g] = raw
		}
		for _, c := range c10cComponents(raw) {
			if _, seen := out[c]; !seen {
				walk(c, depth+1)
			}
		}
	}
	for _, g := range roots {
		walk(g, 0)
	}
	return out
}

// ---- generation ---------------------------------------------------------------------------------

func c10cGen(r *vh.Rand, tier string, n int, emit func(any)) {
	c10cGenF32(r, tier, emit)
	c10cGenBudget(r, tier, emit)
	nSynth := 40
	if tier == "search" {
		nSynth = 150
	} else if tier != "quick" {
		nSynth = 500
	}
	for i := 0; i < nSynth; i++ {
		s := c10cGenSynth(r)
		for !c10cSmall(s) {
			s = c10cGenSynth(r)
		}
		gids := make([]int, len(s.Recs))
		for g := range gids {
			gids[g] = g
		}
		emit(c10cInput{Kind: "synth", Synth: s, Gids: gids})
	}
	corpus := c10Corpus()
	order := r.Perm(len(corpus))
	budget := n
	perCase := 25
	maxHmtx := 9000
	if tier != "quick" && tier != "search" {
		maxHmtx = 1 << 30
	}
	for _, ci := range order {
		if budget <= 0 {
			break
		}
		info := corpus[ci]
		if info.hmtxLen > maxHmtx {
			continue
		}
		f, err := c10Load(info.rel, nil)
		if err != nil {
			continue
		}
		var comps []int
		for g := 0; g < f.nGlyphs; g++ {
			raw, ok := f.glyphRaw(g)
			if ok && len(raw) >= 10 && int16(binary.BigEndian.Uint16(raw)) < 0 {
				comps = append(comps, g)
			}
		}
		if len(comps) == 0 {
			continue
		}
		if tier == "quick" || tier == "search" {
			r.Shuffle(len(comps), func(i, j int) { comps[i], comps[j] = comps[j], comps[i] })
			if len(comps) > perCase {
				comps = comps[:perCase]
			}
			sort.Ints(comps)
		}
		for lo := 0; lo < len(comps); lo += perCase {
			hi := lo + perCase
			if hi > len(comps) {
				hi = len(comps)
			}
			emit(c10cInput{Kind: "font", Font: info.rel, Gids: comps[lo:hi]})
			budget -= hi - lo
		}
	}
}

func c10cGenF32(r *vh.Rand, tier string, emit func(any)) {
	val := func() uint32 {
		switch r.Intn(8) {
		case 0:
			return math.Float32bits(float32(r.Range(-40000, 40000)))
		case 1:
			return math.Float32bits(float32(int16(r.Intn(65536))) / (1 << 14))
		case 2:
			return math.Float32bits(float32(r.Range(-40000, 40000)) * (float32(int16(r.Intn(65536))) / (1 << 14)))
		case 3: // tiny / subnormal
			return uint32(r.Intn(1<<24)) | uint32(r.Intn(2))<<31
		case 4: // large but far from overflow
			return uint32(r.Range(1, 200))<<23 | uint32(r.Intn(1<<23)) | uint32(r.Intn(2))<<31
		case 5:
			return []uint32{0, 0x80000000, 0x3f800000, 0xbf800000, 0x00000001, 0x00800000, 0x4b800000, 0x4b7fffff}[r.Intn(8)]
		default:
			return math.Float32bits(float32(r.Range(-2000, 2000)) + float32(r.Intn(1<<12))/(1<<12))
		}
	}
	n := 400
	if tier == "search" {
		n = 1500
	} else if tier != "quick" {
		n = 5000
	}
	for i := 0; i < n; i++ {
		op := r.Intn(7)
		switch op {
		case 4:
			emit(c10cInput{Kind: "f32", Op: op, Args: []uint32{val(), val(), val(), val()}})
		case 5, 6:
			emit(c10cInput{Kind: "f32", Op: op, Args: []uint32{uint32(r.Intn(65536))}})
		default:
			emit(c10cInput{Kind: "f32", Op: op, Args: []uint32{val(), val()}})
		}
	}
}

// a random small font: empty glyph, simple glyphs, composites (nested, scaled, anchored, self-referencing, out of range)
func c10cGenSynth(r *vh.Rand) *c10cSynth {
	be16 := func(v int) []byte { return []byte{byte(v >> 8), byte(v)} }
	n := r.Range(5, 12)
	nSimple := r.Range(2, 4)
	s := &c10cSynth{Upem: []int{1000, 2048, 16, 16384}[r.Intn(4)]}
	coord := func() int {
		switch r.Intn(8) {
		case 0:
			return []int{-32768, 32767, 0, 1, -1}[r.Intn(5)]
		case 1:
			return r.Range(-3, 3)
		default:
			return r.Range(-1500, 1500)
		}
	}
	hdr := func(nc int) []byte {
		var b []byte
		b = append(b, be16(nc&0xFFFF)...)
		for k := 0; k < 4; k++ {
			b = append(b, be16(coord()&0xFFFF)...)
		}
		return b
	}
	s.Recs = append(s.Recs, nil) // glyph 0: empty
	for g := 1; g <= nSimple; g++ {
		nc := r.Range(1, 3)
		var ends []int
		var flags, xs, ys []byte
		np := 0
		px, py := 0, 0
		for c := 0; c < nc; c++ {
			l := r.Range(1, 5)
			for k := 0; k < l; k++ {
				fl := byte(0)
				if r.Chance(60) {
					fl = 1
				}
				x, y := coord(), coord()
				flags = append(flags, fl)
				xs = append(xs, be16((x-px)&0xFFFF)...)
				ys = append(ys, be16((y-py)&0xFFFF)...)
				px, py = x, y
				np++
			}
			ends = append(ends, np-1)
		}
		rec := hdr(nc)
		for _, e := range ends {
			rec = append(rec, be16(e)...)
		}
		rec = append(rec, 0, 0)
		rec = append(rec, flags...)
		rec = append(rec, xs...)
		rec = append(rec, ys...)
		s.Recs = append(s.Recs, rec)
	}
	f214 := func() int {
		switch r.Intn(6) {
		case 0:
			return []int{0x4000, 0xC000, 0x8000, 0x7FFF, 0, 0x2000, 1, 0xFFFF}[r.Intn(8)]
		case 1:
			return r.Intn(65536)
		default:
			return (0x4000 + r.Range(-0x3000, 0x3000)) & 0xFFFF
		}
	}
	for g := nSimple + 1; g < n; g++ {
		rec := hdr(-1)
		np := r.Range(1, 4)
		selfDone := false
		for k := 0; k < np; k++ {
			flags := 0
			if k+1 < np {
				flags |= 0x20
			}
			words := r.Chance(50)
			if words {
				flags |= 1
			}
			anchored := r.Chance(25)
			if !anchored {
				flags |= 2
			}
			if r.Chance(20) {
				flags |= 0x200 // USE_MY_METRICS
			}
			if r.Chance(30) {
				flags |= 0x800 // SCALED_COMPONENT_OFFSET
			}
			if r.Chance(10) {
				flags |= 0x1000 // UNSCALED_COMPONENT_OFFSET
			}
			if r.Chance(10) {
				flags |= 4 // ROUND_XY_TO_GRID (ignored by the library)
			}
			scaleKind := r.Intn(5)
			switch scaleKind {
			case 1:
				flags |= 8
			case 2:
				flags |= 0x40
			case 3:
				flags |= 0x80
			case 4:
				if r.Chance(30) { // several scale bits at once: the first one tested wins
					flags |= 8 | 0x80
				}
			}
			if k+1 == np && r.Chance(20) {
				flags |= 0x100
			}
			var target int
			switch r.Intn(10) {
			case 0:
				target = g // itself: stopped by the depth limit (at most once per record: no exponential blow-up)
				if selfDone {
					target = 1
				}
				selfDone = true
			case 1:
				target = n + r.Intn(3) // out of range
			case 3:
				target = 0 // empty glyph
			default:
				target = r.Range(1, g-1)
			}
			rec = append(rec, be16(flags)...)
			rec = append(rec, be16(target)...)
			if anchored {
				a1, a2 := r.Intn(8), r.Intn(8)
				if words {
					if r.Chance(10) {
						a1 = 0xFFF0
					}
					rec = append(rec, be16(a1)...)
					rec = append(rec, be16(a2)...)
				} else {
					rec = append(rec, byte(a1), byte(a2))
				}
			} else if words {
				rec = append(rec, be16(coord()&0xFFFF)...)
				rec = append(rec, be16(coord()&0xFFFF)...)
			} else {
				rec = append(rec, byte(r.Intn(256)), byte(r.Intn(256)))
			}
			ns := 0
			switch {
			case flags&8 != 0:
				ns = 1
			case flags&0x40 != 0:
				ns = 2
			case flags&0x80 != 0:
				ns = 4
			}
			for q := 0; q < ns; q++ {
				rec = append(rec, be16(f214())...)
			}
			if flags&0x100 != 0 {
				il := r.Intn(3)
				rec = append(rec, be16(il)...)
				rec = append(rec, make([]byte, il)...)
			}
		}
		s.Recs = append(s.Recs, rec)
	}
	metrics := func(nLong int) []byte {
		var b []byte
		for g := 0; g < nLong; g++ {
			b = append(b, be16(r.Intn(3000))...)
			b = append(b, be16(r.Range(-300, 300)&0xFFFF)...)
		}
		for g := nLong; g < n; g++ {
			b = append(b, be16(r.Range(-300, 300)&0xFFFF)...)
		}
		return b
	}
	s.NLongH = r.Range(1, n)
	s.Hmtx = metrics(s.NLongH)
	if r.Chance(60) {
		s.NLongV = r.Range(1, n)
		s.Vmtx = metrics(s.NLongV)
	}
	return s
}

// c10cGenBudget: synthetic fonts whose composites visit just below / exactly / just above maxCompositeEdges = 1024
// glyph records.  Glyph 0 is empty (a visit that adds no point), glyph 1 a one-point simple glyph (a visit that shows).
func c10cGenBudget(r *vh.Rand, tier string, emit func(any)) {
	be16 := func(v int) []byte { return []byte{byte(v >> 8), byte(v & 0xFF)} }
	point := func(x, y int) []byte { // one contour, one on-curve point
		rec := append(be16(1), be16(x)...)
		rec = append(rec, be16(y)...)
		rec = append(rec, be16(x)...)
		rec = append(rec, be16(y)...)
		rec = append(rec, 0, 0, 0, 0, 1)
		rec = append(rec, be16(x)...)
		return append(rec, be16(y)...)
	}
	composite := func(targets []int) []byte {
		rec := append(be16(0xFFFF), 0, 0, 0, 0, 0, 0, 0, 0)
		for i, t := range targets {
			flags := 2 // ARGS_ARE_XY_VALUES, byte arguments
			if i+1 < len(targets) {
				flags |= 0x20
			}
			rec = append(rec, be16(flags)...)
			rec = append(rec, be16(t)...)
			rec = append(rec, byte(i%7), byte(i%5))
		}
		return rec
	}
	metrics := func(n int) []byte {
		var b []byte
		for g := 0; g < n; g++ {
			b = append(b, be16(500+g)...)
			b = append(b, be16(g)...)
		}
		return b
	}
	mk := func(recs [][]byte, root int) {
		s := &c10cSynth{Upem: 1000, Recs: recs, NLongH: len(recs), Hmtx: metrics(len(recs))}
		emit(c10cInput{Kind: "synth", Synth: s, Gids: []int{root}})
	}
	// wide fan-out: one composite with n components; the components around position 1024 are the visible ones
	fans := []int{1023, 1024, 1025, 1030}
	if tier != "quick" {
		fans = append(fans, 1, 2, 1000, 1022, 1026, 1027, 2000)
	}
	for _, n := range fans {
		targets := make([]int, n)
		for i := range targets {
			if i >= 1018 || r.Chance(1) {
				targets[i] = 1
			}
		}
		mk([][]byte{nil, point(10, 20), composite(targets)}, 2)
	}
	// nested: glyph 3 = a components glyph 2; glyph 2 = b empty components with the visible one at a random place
	nests := 3
	if tier != "quick" {
		nests = 40
	}
	for k := 0; k < nests; k++ {
		b := r.Range(3, 40)
		a := 1024/(b+2) + r.Range(-1, 2)
		if a < 1 {
			a = 1
		}
		inner := make([]int, b+1)
		inner[r.Intn(b+1)] = 1
		outer := make([]int, a)
		for i := range outer {
			outer[i] = 2
		}
		mk([][]byte{nil, point(-3, 7), composite(inner), composite(outer)}, 3)
	}
	// binary tree of depth d: 2^(d+1)-1 visits; d = 9 stays below the budget, d = 10 is cut (thorough only: 512+ points)
	if tier != "quick" {
		for _, d := range []int{9, 10, 11} {
			recs := [][]byte{nil, point(1, 1)}
			for l := 0; l < d; l++ {
				recs = append(recs, composite([]int{len(recs) - 1, len(recs) - 1}))
			}
			mk(recs, len(recs)-1)
		}
	}
}

// c10cSmall: the synthetic font loads and no glyph resolves to more than 250 points (nested composites multiply)
func c10cSmall(s *c10cSynth) bool {
	ld, err := ot.NewLoader(bytes.NewReader(c10cSynthFile(s)))
	if err != nil {
		return false
	}
	ft, err := font.NewFont(ld)
	if err != nil || ft.VerifGlyfLen() != len(s.Recs) {
		return false
	}
	face := font.NewFace(ft)
	total := 0
	for g := range s.Recs {
		n := len(face.VerifGlyfAllPoints(font.GID(g)))
		if n > 250 {
			return false
		}
		total += n
	}
	return total <= 800
}

// ---- execution ----------------------------------------------------------------------------------

//go:noinline
func c10cF32(op int, a []float32) float32 {
	switch op {
	case 0:
		return a[0] + a[1]
	case 1:
		return a[0] * a[1]
	case 2:
		return (a[0] + a[1]) / 2
	case 3:
		return a[0] - a[1]
	case 4:
		return a[0]*a[1] + a[2]*a[3] // as contourPoint.transform writes it
	}
	return 0
}

func c10cBits(v float32) string { return vh.Z(int64(math.Float32bits(v))) }

func c10cSegs(segs []font.Segment) (string, string) {
	bad := ""
	el := make([]string, len(segs))
	for i, s := range segs {
		a := s.Args
		unused := func(from int) {
			for k := from; k < 3; k++ {
				if a[k].X != 0 || a[k].Y != 0 {
					bad = fmt.Sprintf("segment %d: unused argument not zero: %v", i, s)
				}
			}
		}
		switch s.Op {
		case ot.SegmentOpMoveTo:
			el[i] = fmt.Sprintf("M %s %s", c10cBits(a[0].X), c10cBits(a[0].Y))
			unused(1)
		case ot.SegmentOpLineTo:
			el[i] = fmt.Sprintf("L %s %s", c10cBits(a[0].X), c10cBits(a[0].Y))
			unused(1)
		case ot.SegmentOpQuadTo:
			el[i] = fmt.Sprintf("Q %s %s %s %s", c10cBits(a[0].X), c10cBits(a[0].Y), c10cBits(a[1].X), c10cBits(a[1].Y))
			unused(2)
		default:
			el[i] = "M 0 0"
			bad = fmt.Sprintf("segment %d: unexpected op %d", i, s.Op)
		}
	}
	return vh.List(el), bad
}

func c10cRun(o *vh.Out, inAny any) {
	in := inAny.(c10cInput)
	var (
		coq, key string
		fails    []string
		classes  []string
	)
	func() {
		defer func() {
			if p := recover(); p != nil {
				fails = append(fails, fmt.Sprintf("panic: %v", p))
				if coq == "" {
					coq = "(CF32 0 [] 0)"
				}
			}
		}()
		switch in.Kind {
		case "f32":
			var res float32
			var args []string
			if in.Op == 5 || in.Op == 6 {
				v := uint16(in.Args[0])
				if in.Op == 5 {
					res = float32(int16(v))
				} else {
					res = tables.Float214FromUint(v)
				}
				args = []string{vh.Z(int64(v))}
			} else {
				fa := make([]float32, len(in.Args))
				for i, b := range in.Args {
					fa[i] = math.Float32frombits(b)
					args = append(args, vh.Z(int64(b)))
				}
				res = c10cF32(in.Op, fa)
			}
			coq = vh.App("CF32", vh.Zi(in.Op), vh.List(args), c10cBits(res))
			key = coq
			classes = append(classes, fmt.Sprintf("f32_op%d", in.Op))
		case "font", "synth":
			coq, key, classes, fails = c10cRunFont(o, in)
		default:
			fails = append(fails, "unknown kind "+in.Kind)
			coq = "(CF32 0 [] 0)"
		}
	}()
	idx := o.Add(in, coq, key, classes...)
	for _, f := range fails {
		kind := "impl"
		if strings.HasPrefix(f, "panic") {
			kind = "panic"
		}
		o.Fail(idx, kind, f)
	}
}

func c10cRunFont(o *vh.Out, in c10cInput) (coq, key string, classes, fails []string) {
	bad := func(msg string) (string, string, []string, []string) {
		return "(CF32 0 [] 0)", "", []string{"font_load_error"}, []string{"driver: " + msg}
	}
	var (
		ft                           *font.Font
		head, hhea, hmtx, vhea, vmtx []byte
		rawOf                        func(int) ([]byte, bool)
	)
	if in.Kind == "synth" {
		if in.Synth == nil {
			return bad("no synth data")
		}
		file := c10cSynthFile(in.Synth)
		ld, err := ot.NewLoader(bytes.NewReader(file))
		if err != nil {
			return bad(err.Error())
		}
		ft, err = font.NewFont(ld)
		if err != nil {
			return bad(err.Error())
		}
		raw := func(tag string) []byte { b, _ := ld.RawTable(ot.MustNewTag(tag)); return b }
		head, hhea, hmtx, vhea, vmtx = raw("head"), raw("hhea"), raw("hmtx"), raw("vhea"), raw("vmtx")
		rawOf = func(g int) ([]byte, bool) {
			if g < 0 || g >= len(in.Synth.Recs) {
				return nil, false
			}
			return in.Synth.Recs[g], true
		}
		classes = append(classes, "synthetic_font")
	} else {
		f, err := c10Load(in.Font, nil)
		if err != nil {
			return bad(err.Error())
		}
		ft = f.ft
		raw := func(tag string) []byte { b, _ := f.ld.RawTable(ot.MustNewTag(tag)); return b }
		head, hhea, hmtx, vhea, vmtx = f.head, f.hhea, f.hmtx, raw("vhea"), raw("vmtx")
		rawOf = f.glyphRaw
		classes = append(classes, "corpus_font")
	}
	nGlyf := ft.VerifGlyfLen()
	if nGlyf == 0 {
		// the library rejected the glyf table (a synthetic record is malformed): nothing to compare
		return "(CF32 0 [] 0)", "", []string{"glyf_rejected"}, nil
	}
	face := font.NewFace(ft)
	recs := c10cClosure(rawOf, in.Gids)
	var recGids []int
	for g := range recs {
		recGids = append(recGids, g)
	}
	sort.Ints(recGids)
	recS := make([]string, len(recGids))
	for i, g := range recGids {
		recS[i] = vh.Tuple(vh.Zi(g), vh.BytesLit(recs[g]))
	}
	var glyphs []string
	for _, g := range in.Gids {
		if g >= nGlyf {
			continue
		}
		pts := face.VerifGlyfAllPoints(font.GID(g))
		ptS := make([]string, len(pts))
		for i, p := range pts {
			ptS[i] = fmt.Sprintf("FP %s %s %s %s", c10cBits(p.X), c10cBits(p.Y), vh.Bool(p.On), vh.Bool(p.IsEnd))
		}
		hasOutline := false
		segS := "[]"
		if ol, ok := face.GlyphData(font.GID(g)).(font.GlyphOutline); ok {
			hasOutline = true
			var b string
			segS, b = c10cSegs(ol.Segments)
			if b != "" {
				fails = append(fails, fmt.Sprintf("glyph %d: %s", g, b))
			}
			o.Count(fmt.Sprintf("comp_segments=%d", bucket(len(ol.Segments))))
		}
		raw, _ := rawOf(g)
		switch {
		case len(raw) == 0:
			o.Count("cglyph_empty")
		case int16(binary.BigEndian.Uint16(raw)) >= 0:
			o.Count("cglyph_simple")
		default:
			o.Count("cglyph_composite")
			comps := c10cComponents(raw)
			o.Count(fmt.Sprintf("components=%d", bucket(len(comps))))
			fl := binary.BigEndian.Uint16(raw[10:])
			if fl&0xC8 != 0 {
				o.Count("first_component_scaled")
			}
			if fl&2 == 0 {
				o.Count("first_component_anchored")
			}
			if fl&0x200 != 0 {
				o.Count("first_component_use_my_metrics")
			}
		}
		glyphs = append(glyphs, vh.App("mkCC", vh.Zi(g), vh.List(ptS), vh.Bool(hasOutline), segS))
	}
	coq = vh.App("CCompFont", vh.BytesLit(head[:54]), vh.BytesLit(hhea), vh.BytesLit(hmtx), vh.BytesLit(vhea), vh.BytesLit(vmtx),
		vh.Zi(nGlyf), vh.List(recS), vh.List(glyphs))
	if len(glyphs) > 0 {
		key = coq
	}
	return coq, key, classes, fails
}
