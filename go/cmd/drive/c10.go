package main

import (
	"bytes"
	"encoding/binary"
	"encoding/json"
	"fmt"
	"math"
	"os"
	"os/exec"
	"path/filepath"
	"sort"
	"strings"

	"github.com/go-text/typesetting/font"
	ot "github.com/go-text/typesetting/font/opentype"
	"github.com/go-text/typesetting/font/opentype/tables"

	"verifharness/internal/vh"
)

// C10: decoded metrics and outlines.  The Coq model is the independent decoder: it receives the raw table bytes
// (head, maxp, hhea, hmtx, the glyf record of each sampled glyph) and must reproduce what the library returns.

type c10Patch struct {
	Table string `json:"table"`
	Off   int    `json:"off"`
	Bytes []byte `json:"bytes"`
}
type c10Pt struct {
	X   int  `json:"x"`
	Y   int  `json:"y"`
	On  bool `json:"on"`
	End bool `json:"end"`
}
type c10Input struct {
	Kind    string     `json:"kind"` // font | var | seg | ext
	Font    string     `json:"font,omitempty"`
	Patches []c10Patch `json:"patches,omitempty"`
	AdvGids []int      `json:"adv_gids,omitempty"`
	Gids    []int      `json:"gids,omitempty"`
	Pts     []c10Pt    `json:"pts,omitempty"`
	Gid     *int       `json:"gid,omitempty"` // replay of a failure reported by the extra sweep cmd/c10sfnt: {"font", "gid"}
}

func init() {
	drivers["c10"] = &driver{
		header: "From TV Require Import Check.C10.",
		shard:  12,
		n: func(tier string) int {
			if tier == "quick" {
				return 400
			}
			return 40000
		},
		decode: func(raw json.RawMessage) (any, error) {
			var in c10Input
			err := json.Unmarshal(raw, &in)
			if in.Kind == "" && in.Font != "" && in.Gid != nil {
				in.Kind, in.Gids, in.AdvGids = "font", []int{*in.Gid}, []int{*in.Gid}
				in.Gid = nil
			}
			return in, err
		},
		gen: c10Gen,
		run: c10Run,
	}
}

// ---- font corpus --------------------------------------------------------------------------------

var c10RootCache string

// c10Root locates the typesetting-utils module (fonts) in the module cache.
func c10Root() string {
	if c10RootCache != "" {
		return c10RootCache
	}
	if d := os.Getenv("VERIF_FONTS"); d != "" {
		c10RootCache = d
		return d
	}
	repo := os.Getenv("VERIF_REPO")
	if repo == "" {
		repo = "/repo"
	}
	cmd := exec.Command("go", "list", "-m", "-f", "{{.Dir}}", "github.com/go-text/typesetting-utils")
	cmd.Dir = repo
	if out, err := cmd.Output(); err == nil {
		if d := strings.TrimSpace(string(out)); d != "" {
			c10RootCache = d
			return d
		}
	}
	home, _ := os.UserHomeDir()
	m, _ := filepath.Glob(filepath.Join(home, "go/pkg/mod/github.com/go-text/typesetting-utils@*"))
	if len(m) > 0 {
		sort.Strings(m)
		c10RootCache = m[len(m)-1]
		return c10RootCache
	}
	fmt.Fprintln(os.Stderr, "c10: cannot locate github.com/go-text/typesetting-utils in the module cache")
	os.Exit(2)
	return ""
}

type c10Font struct {
	rel            string
	file           []byte
	ld             *ot.Loader
	ft             *font.Font
	head, maxp     []byte
	hhea, hmtx     []byte
	glyf, loca     []byte
	long           bool
	axes           int
	otherSources   bool
	nGlyphs, nLong int
}

// sfnt directory of a plain TrueType/OpenType file: tag -> (offset, length)
func c10Dir(file []byte) map[string][2]int {
	out := map[string][2]int{}
	if len(file) < 12 {
		return out
	}
	n := int(binary.BigEndian.Uint16(file[4:]))
	for i := 0; i < n; i++ {
		r := 12 + 16*i
		if r+16 > len(file) {
			break
		}
		out[string(file[r:r+4])] = [2]int{int(binary.BigEndian.Uint32(file[r+8:])), int(binary.BigEndian.Uint32(file[r+12:]))}
	}
	return out
}

func c10Load(rel string, patches []c10Patch) (f *c10Font, err error) {
	defer func() {
		if p := recover(); p != nil {
			f, err = nil, fmt.Errorf("panic while loading: %v", p)
		}
	}()
	file, err := os.ReadFile(filepath.Join(c10Root(), rel))
	if err != nil {
		return nil, err
	}
	if len(patches) > 0 {
		file = append([]byte(nil), file...)
		dir := c10Dir(file)
		for _, p := range patches {
			e, ok := dir[p.Table]
			if !ok || p.Off < 0 || p.Off+len(p.Bytes) > e[1] || e[0]+e[1] > len(file) {
				return nil, fmt.Errorf("bad patch %v", p)
			}
			copy(file[e[0]+p.Off:], p.Bytes)
		}
	}
	ld, err := ot.NewLoader(bytes.NewReader(file))
	if err != nil {
		return nil, err
	}
	ft, err := font.NewFont(ld)
	if err != nil {
		return nil, err
	}
	out := &c10Font{rel: rel, file: file, ld: ld, ft: ft}
	raw := func(tag string) []byte { b, _ := ld.RawTable(ot.MustNewTag(tag)); return b }
	out.head, out.maxp, out.hhea, out.hmtx = raw("head"), raw("maxp"), raw("hhea"), raw("hmtx")
	out.glyf, out.loca = raw("glyf"), raw("loca")
	if len(out.head) < 54 || len(out.maxp) < 6 {
		return nil, fmt.Errorf("short head/maxp")
	}
	out.long = binary.BigEndian.Uint16(out.head[50:]) == 1
	out.nGlyphs = ft.VerifNumGlyphs()
	if len(out.hhea) >= 36 {
		out.nLong = int(binary.BigEndian.Uint16(out.hhea[34:]))
	}
	if fv := raw("fvar"); len(fv) >= 16 {
		out.axes = int(binary.BigEndian.Uint16(fv[8:]))
	}
	out.otherSources = ft.VerifHasOtherGlyphSources()
	return out, nil
}

// glyph record bytes glyf[loca[g]:loca[g+1]], decoded by the driver independently of tables.ParseLoca
func (f *c10Font) glyphRaw(g int) ([]byte, bool) {
	var s, e int
	if f.long {
		if 4*g+8 > len(f.loca) {
			return nil, false
		}
		s, e = int(binary.BigEndian.Uint32(f.loca[4*g:])), int(binary.BigEndian.Uint32(f.loca[4*g+4:]))
	} else {
		if 2*g+4 > len(f.loca) {
			return nil, false
		}
		s, e = 2*int(binary.BigEndian.Uint16(f.loca[2*g:])), 2*int(binary.BigEndian.Uint16(f.loca[2*g+2:]))
	}
	if s > e || e > len(f.glyf) {
		return nil, false
	}
	return f.glyf[s:e], true
}

// eligible: glyf-flavoured, every glyph answered by the glyf path, glyf table accepted by the library
func (f *c10Font) eligible() bool {
	return len(f.glyf) > 0 && !f.otherSources && f.ft.VerifGlyfLen() == f.nGlyphs && f.nGlyphs > 0
}

type c10Info struct {
	rel     string
	nGlyphs int
	hmtxLen int
	axes    int
}

func c10Corpus() []c10Info {
	root := c10Root()
	var out []c10Info
	filepath.Walk(root, func(p string, info os.FileInfo, err error) error {
		if err != nil || info.IsDir() {
			return nil
		}
		if !(strings.HasSuffix(p, ".ttf") || strings.HasSuffix(p, ".otf")) {
			return nil
		}
		rel, _ := filepath.Rel(root, p)
		f, err := c10Load(rel, nil)
		if err != nil || !f.eligible() {
			return nil
		}
		out = append(out, c10Info{rel, f.nGlyphs, len(f.hmtx), f.axes})
		return nil
	})
	sort.Slice(out, func(i, j int) bool { return out[i].rel < out[j].rel })
	return out
}

// ---- generation ---------------------------------------------------------------------------------

func c10Gen(r *vh.Rand, tier string, n int, emitOut func(any)) {
	// synthetic (small) and font (large) cases are interleaved so that the Coq shards have comparable sizes
	var synth, fonts []any
	c10GenSynthetic(r, tier, func(in any) { synth = append(synth, in) })
	emit := func(in any) { fonts = append(fonts, in) }
	defer func() {
		per := 1
		if len(fonts) > 0 {
			per = (len(synth) + len(fonts) - 1) / len(fonts)
		}
		si := 0
		for _, f := range fonts {
			emitOut(f)
			for k := 0; k < per && si < len(synth); k++ {
				emitOut(synth[si])
				si++
			}
		}
		for ; si < len(synth); si++ {
			emitOut(synth[si])
		}
	}()

	corpus := c10Corpus()
	if len(corpus) == 0 {
		fmt.Fprintln(os.Stderr, "c10: no eligible font found")
		os.Exit(2)
	}
	perCase := 40
	maxRaw := 420
	maxHmtx := 9000
	if tier != "quick" {
		perCase = 150
		maxRaw = 1 << 20
		maxHmtx = 1 << 30
	}
	budget := n
	order := r.Perm(len(corpus))
	// the larger real-world fonts first (at most two in the quick tier), then the many small test fonts
	sort.SliceStable(order, func(a, b int) bool {
		return (corpus[order[a]].nGlyphs >= 300) && !(corpus[order[b]].nGlyphs >= 300)
	})
	big := 0
	f26Done := false
	zeroLongDone := false
	for _, ci := range order {
		if budget <= 0 {
			break
		}
		info := corpus[ci]
		if info.hmtxLen > maxHmtx {
			continue
		}
		if tier == "quick" && info.nGlyphs >= 300 {
			if big >= 3 {
				continue
			}
			big++
		}
		f, err := c10Load(info.rel, nil)
		if err != nil {
			continue
		}
		// glyph sample
		var gids []int
		if tier == "quick" || tier == "search" {
			cand := r.Perm(f.nGlyphs)
			for _, g := range cand {
				if len(gids) >= perCase {
					break
				}
				raw, ok := f.glyphRaw(g)
				if !ok || len(raw) > maxRaw {
					continue
				}
				gids = append(gids, g)
			}
			sort.Ints(gids)
		} else {
			for g := 0; g < f.nGlyphs; g++ {
				gids = append(gids, g)
			}
		}
		// advances: boundaries of the long-metric array, first/last glyphs, the sampled glyphs, beyond numGlyphs
		advSet := map[int]bool{}
		for _, g := range []int{0, 1, f.nLong - 2, f.nLong - 1, f.nLong, f.nLong + 1, f.nGlyphs - 2, f.nGlyphs - 1, f.nGlyphs, f.nGlyphs + 7, 65535} {
			if g >= 0 && g <= 65535 {
				advSet[g] = true
			}
		}
		for _, g := range gids {
			advSet[g] = true
		}
		if tier != "quick" {
			for g := 0; g < f.nGlyphs; g++ {
				advSet[g] = true
			}
		} else {
			for i := 0; i < 30; i++ {
				advSet[r.Intn(f.nGlyphs)] = true
			}
		}
		var advs []int
		for g := range advSet {
			advs = append(advs, g)
		}
		sort.Ints(advs)
		first := true
		for lo := 0; lo < len(gids); lo += perCase {
			hi := lo + perCase
			if hi > len(gids) {
				hi = len(gids)
			}
			in := c10Input{Kind: "font", Font: info.rel, Gids: gids[lo:hi]}
			if first {
				in.AdvGids = advs
				first = false
			}
			emit(in)
			budget -= hi - lo
		}
		// the same font read with fewer long metrics (still a well-formed hmtx): exercises the repeated-advance rule
		if f.nLong >= 2 && len(f.hhea) >= 36 {
			k := r.Range(1, f.nLong-1)
			sub := gids
			if len(sub) > 12 {
				sub = sub[:12]
			}
			emit(c10Input{Kind: "font", Font: info.rel, Gids: sub, AdvGids: advs,
				Patches: []c10Patch{{Table: "hhea", Off: 34, Bytes: []byte{byte(k >> 8), byte(k)}}}})
		}
		// malformed hhea: no long metric at all (Hmtx.Advance returns 0), and more long metrics than glyphs
		// (the side bearings count is clamped) - advances only
		if !zeroLongDone && len(f.hhea) >= 36 {
			zeroLongDone = true
			emit(c10Input{Kind: "font", Font: info.rel, AdvGids: advs, Patches: []c10Patch{{Table: "hhea", Off: 34, Bytes: []byte{0, 0}}}})
			k := f.nGlyphs + 3
			emit(c10Input{Kind: "font", Font: info.rel, AdvGids: advs, Patches: []c10Patch{{Table: "hhea", Off: 34, Bytes: []byte{byte(k >> 8), byte(k)}}}})
		}
		// F26 (known finding): one advanceWidth >= 32768; the library reads it as a negative int16
		if !f26Done && f.nLong >= 2 && len(f.hmtx) >= 8 {
			f26Done = true
			g := r.Intn(f.nLong)
			emit(c10Input{Kind: "font", Font: info.rel, AdvGids: []int{g, f.nLong - 1, f.nGlyphs - 1},
				Patches: []c10Patch{{Table: "hmtx", Off: 4 * g, Bytes: []byte{byte(0x80 + r.Intn(0x80)), byte(r.Intn(256))}}}})
		}
		// variable fonts: the face at the default coordinates computes extents from the points
		if info.axes > 0 {
			var simple []int
			for _, g := range gids {
				raw, ok := f.glyphRaw(g)
				if ok && (len(raw) == 0 || (len(raw) >= 10 && int16(binary.BigEndian.Uint16(raw)) >= 0)) {
					simple = append(simple, g)
				}
				if len(simple) >= perCase {
					break
				}
			}
			if len(simple) > 0 {
				emit(c10Input{Kind: "var", Font: info.rel, Gids: simple})
			}
		}
	}
}

func c10GenSynthetic(r *vh.Rand, tier string, emit func(any)) {
	coord := func() int {
		switch r.Intn(6) {
		case 0:
			return r.Range(-3, 3)
		case 1:
			return []int{-32768, 32767, 0, 1, -1}[r.Intn(5)]
		default:
			return r.Range(-2000, 2000)
		}
	}
	mk := func(pattern []bool, end bool) []c10Pt {
		pts := make([]c10Pt, len(pattern))
		for i, on := range pattern {
			pts[i] = c10Pt{X: coord(), Y: coord(), On: on}
		}
		if end && len(pts) > 0 {
			pts[len(pts)-1].End = true
		}
		return pts
	}
	// every on/off pattern of one contour with 1..5 points, alone and after a first contour (stale state)
	emit(c10Input{Kind: "seg"})
	emit(c10Input{Kind: "ext"})
	for l := 1; l <= 5; l++ {
		for m := 0; m < 1<<l; m++ {
			pat := make([]bool, l)
			for i := range pat {
				pat[i] = m>>i&1 == 1
			}
			emit(c10Input{Kind: "seg", Pts: mk(pat, true)})
			pre := mk([]bool{r.Bool(), r.Bool(), r.Bool()}, true)
			emit(c10Input{Kind: "seg", Pts: append(pre, mk(pat, true)...)})
			emit(c10Input{Kind: "ext", Pts: mk(pat, true)})
		}
	}
	// all on-curve, all off-curve, alternating, starting off-curve, longer
	for _, l := range []int{6, 9, 17} {
		for _, mode := range []int{0, 1, 2, 3} {
			pat := make([]bool, l)
			for i := range pat {
				switch mode {
				case 0:
					pat[i] = true
				case 1:
					pat[i] = false
				case 2:
					pat[i] = i%2 == 0
				case 3:
					pat[i] = i%2 == 1
				}
			}
			emit(c10Input{Kind: "seg", Pts: mk(pat, true)})
		}
	}
	nRand := 150
	if tier != "quick" {
		nRand = 3000
	}
	for i := 0; i < nRand; i++ {
		var pts []c10Pt
		nc := r.Range(1, 4)
		for c := 0; c < nc; c++ {
			l := r.Range(1, 7)
			pat := make([]bool, l)
			bias := r.Range(10, 90)
			for j := range pat {
				pat[j] = r.Chance(bias)
			}
			pts = append(pts, mk(pat, true)...)
		}
		if r.Chance(5) { // unterminated tail (malformed stream, correspondence only)
			pts = append(pts, mk([]bool{r.Bool(), r.Bool()}, false)...)
		}
		emit(c10Input{Kind: "seg", Pts: pts})
		if i%3 == 0 {
			emit(c10Input{Kind: "ext", Pts: pts})
		}
	}
}

// ---- execution ----------------------------------------------------------------------------------

// half converts a float32 coordinate to half font units; ok is false when it is not a multiple of 1/2
func c10Half(v float32) (int64, bool) {
	d := float64(v) * 2
	if d != math.Trunc(d) || math.IsInf(d, 0) || math.IsNaN(d) || math.Abs(d) > 1e12 {
		return 0, false
	}
	return int64(d), true
}
func c10Int(v float32) (int64, bool) {
	d := float64(v)
	if d != math.Trunc(d) || math.IsInf(d, 0) || math.IsNaN(d) || math.Abs(d) > 1e12 {
		return 0, false
	}
	return int64(d), true
}

// c10Segs prints segments with the compact constructors of Check/C10.v; bad != "" when a value cannot be represented
func c10Segs(segs []font.Segment) (string, string) {
	bad := ""
	el := make([]string, len(segs))
	for i, s := range segs {
		var a [6]int64
		for k := 0; k < 3; k++ {
			var ok1, ok2 bool
			a[2*k], ok1 = c10Half(s.Args[k].X)
			a[2*k+1], ok2 = c10Half(s.Args[k].Y)
			if !ok1 || !ok2 {
				bad = fmt.Sprintf("segment %d: coordinate not a multiple of 1/2: %v", i, s)
			}
		}
		unused := func(from int) {
			for k := from; k < 6; k++ {
				if a[k] != 0 {
					bad = fmt.Sprintf("segment %d: unused argument not zero: %v", i, s)
				}
			}
		}
		switch s.Op {
		case ot.SegmentOpMoveTo:
			el[i] = fmt.Sprintf("M %s %s", vh.Z(a[0]), vh.Z(a[1]))
			unused(2)
		case ot.SegmentOpLineTo:
			el[i] = fmt.Sprintf("L %s %s", vh.Z(a[0]), vh.Z(a[1]))
			unused(2)
		case ot.SegmentOpQuadTo:
			el[i] = fmt.Sprintf("Q %s %s %s %s", vh.Z(a[0]), vh.Z(a[1]), vh.Z(a[2]), vh.Z(a[3]))
			unused(4)
		default:
			el[i] = "M 0 0"
			bad = fmt.Sprintf("segment %d: unexpected op %d", i, s.Op)
		}
	}
	return vh.List(el), bad
}

func c10Ext(e font.GlyphExtents) (string, string) {
	var v [4]int64
	bad := ""
	for i, f := range []float32{e.XBearing, e.YBearing, e.Width, e.Height} {
		var ok bool
		v[i], ok = c10Int(f)
		if !ok {
			bad = fmt.Sprintf("extents not integral: %v", e)
		}
	}
	return vh.Tuple(vh.Z(v[0]), vh.Z(v[1]), vh.Z(v[2]), vh.Z(v[3])), bad
}

func c10Pts(pts []c10Pt) (string, []font.VerifContourPoint) {
	el := make([]string, len(pts))
	vp := make([]font.VerifContourPoint, len(pts))
	for i, p := range pts {
		el[i] = fmt.Sprintf("P %s %s %s %s", vh.Zi(p.X), vh.Zi(p.Y), vh.Bool(p.On), vh.Bool(p.End))
		vp[i] = font.VerifContourPoint{X: float32(p.X), Y: float32(p.Y), On: p.On, IsEnd: p.End}
	}
	return vh.List(el), vp
}

func c10Run(o *vh.Out, inAny any) {
	in := inAny.(c10Input)
	var (
		coq, key string
		fails    []string
		classes  []string
	)
	func() {
		defer func() {
			if p := recover(); p != nil {
				fails = append(fails, fmt.Sprintf("panic: %v", p))
				if coq == "" {
					coq = "(CSeg [] [])"
				}
			}
		}()
		switch in.Kind {
		case "seg":
			ptsS, vp := c10Pts(in.Pts)
			segs := font.VerifBuildSegments(vp)
			segS, bad := c10Segs(segs)
			if bad != "" {
				fails = append(fails, bad)
			}
			coq = vh.App("CSeg", ptsS, segS)
			if len(in.Pts) > 0 {
				key = coq
			}
			classes = append(classes, "seg", fmt.Sprintf("seg_points=%d", bucket(len(in.Pts))))
		case "ext":
			ptsS, vp := c10Pts(in.Pts)
			e := font.VerifExtentsFromPoints(vp)
			eS, bad := c10Ext(e)
			if bad != "" {
				fails = append(fails, bad)
			}
			coq = vh.App("CExt", ptsS, eS)
			if len(in.Pts) > 0 {
				key = coq
			}
			classes = append(classes, "ext")
		case "font", "var":
			coq, key, classes, fails = c10RunFont(o, in)
		default:
			fails = append(fails, "unknown kind "+in.Kind)
			coq = "(CSeg [] [])"
		}
	}()
	idx := o.Add(in, coq, key, classes...)
	for _, f := range fails {
		kind := "impl"
		if strings.HasPrefix(f, "panic") {
			kind = "panic"
		}
		o.Fail(idx, kind, f)
	}
}

func c10RunFont(o *vh.Out, in c10Input) (coq, key string, classes, fails []string) {
	f, err := c10Load(in.Font, in.Patches)
	if err != nil {
		return "(CSeg [] [])", "", []string{"font_load_error"}, []string{"driver: " + err.Error()}
	}
	face := font.NewFace(f.ft)
	isVar := in.Kind == "var"
	if isVar {
		face.SetCoords(make([]tables.Coord, f.axes))
	}
	var advs []string
	for _, g := range in.AdvGids {
		a, ok := c10Int(face.HorizontalAdvance(font.GID(g)))
		if !ok {
			fails = append(fails, fmt.Sprintf("advance of %d not integral", g))
		}
		advs = append(advs, vh.Tuple(vh.Zi(g), vh.Z(a)))
		switch {
		case g < f.nLong:
			o.Count("adv_long")
		case g < f.nGlyphs:
			o.Count("adv_repeated")
		default:
			o.Count("adv_out_of_range")
		}
	}
	var glyphs []string
	for _, g := range in.Gids {
		raw, ok := f.glyphRaw(g)
		if !ok {
			fails = append(fails, fmt.Sprintf("driver: no glyf record for %d", g))
			continue
		}
		mode := 0
		if len(raw) >= 10 && int16(binary.BigEndian.Uint16(raw)) < 0 {
			mode = 1
			raw = raw[:10]
			o.Count("glyph_composite_extents_only")
		} else if len(raw) == 0 {
			o.Count("glyph_empty")
		} else {
			o.Count("glyph_simple")
		}
		if isVar && mode == 1 {
			continue
		}
		hasOutline := false
		segS := "[]"
		if mode == 0 {
			data := face.GlyphData(font.GID(g))
			if ol, ok := data.(font.GlyphOutline); ok {
				hasOutline = true
				var bad string
				segS, bad = c10Segs(ol.Segments)
				if bad != "" {
					fails = append(fails, fmt.Sprintf("glyph %d: %s", g, bad))
				}
				o.Count(fmt.Sprintf("segments=%d", bucket(len(ol.Segments))))
			}
		}
		ext, hasExt := face.GlyphExtents(font.GID(g))
		extS, bad := c10Ext(ext)
		if bad != "" {
			fails = append(fails, fmt.Sprintf("glyph %d: %s", g, bad))
		}
		glyphs = append(glyphs, vh.App("mkG", vh.Zi(g), vh.Zi(mode), vh.BytesLit(raw), vh.Bool(hasOutline), segS, vh.Bool(hasExt), extS))
	}
	if isVar {
		coq = vh.App("CVar", vh.BytesLit(f.hhea), vh.BytesLit(f.hmtx), vh.Zi(f.nGlyphs), vh.List(glyphs))
		classes = append(classes, "var_default_coords")
	} else {
		coq = vh.App("CFont", vh.BytesLit(f.head), vh.BytesLit(f.maxp), vh.BytesLit(f.hhea), vh.BytesLit(f.hmtx),
			vh.Zi(int(f.ft.Upem())), vh.Zi(f.nGlyphs), vh.List(advs), vh.List(glyphs))
		classes = append(classes, "font")
		if len(in.Patches) > 0 {
			classes = append(classes, "font_patched")
		}
	}
	if len(glyphs)+len(advs) > 0 {
		key = coq
	}
	return coq, key, classes, fails
}
