package main

import (
	"bytes"
	"encoding/json"
	"fmt"
	"math"
	"os"
	"path/filepath"
	"sort"
	"strings"

	"github.com/go-text/typesetting/font"
	"github.com/go-text/typesetting/font/cff"
	ps "github.com/go-text/typesetting/font/cff/interpreter"
	ot "github.com/go-text/typesetting/font/opentype"
	"github.com/go-text/typesetting/font/opentype/tables"

	"verifharness/internal/vh"
)

// C10, CFF: the Coq model (Model/Charstring.v) interprets the raw Type 2 charstring with the raw subroutine lists and
// must reproduce segments, bounds and extents.

type c10fInput struct {
	Kind   string   `json:"kind"`            // font | synth | font2 | synth2 (CFF2 at the default coordinates)
	KS     []int    `json:"ks,omitempty"`    // CFF2: region count of every ItemVariationData
	Valid  []bool   `json:"valid,omitempty"` // CFF2: its region indices are valid
	DefVS  int      `json:"def_vs,omitempty"`
	Font   string   `json:"font,omitempty"`
	Gids   []int    `json:"gids,omitempty"`
	CS     [][]byte `json:"cs,omitempty"` // synthetic charstrings, all run with the same subroutines
	Local  [][]byte `json:"local,omitempty"`
	Global [][]byte `json:"global,omitempty"`
}

func init() {
	drivers["c10cff"] = &driver{
		header: "From TV Require Import Check.C10cff.",
		shard:  8,
		n: func(tier string) int {
			if tier == "quick" {
				return 300
			}
			return 30000
		},
		decode: func(raw json.RawMessage) (any, error) {
			var in c10fInput
			err := json.Unmarshal(raw, &in)
			return in, err
		},
		gen: c10fGen,
		run: c10fRun,
	}
}

type c10fInfo struct {
	rel       string
	nGlyphs   int
	subrBytes int
}

func c10fCorpus() []c10fInfo {
	root := c10Root()
	var out []c10fInfo
	filepath.Walk(root, func(p string, info os.FileInfo, err error) error {
		if err != nil || info.IsDir() || !(strings.HasSuffix(p, ".otf") || strings.HasSuffix(p, ".ttf")) {
			return nil
		}
		rel, _ := filepath.Rel(root, p)
		ft := c10fLoad(rel)
		if ft == nil || ft.VerifCFF() == nil {
			return nil
		}
		c := ft.VerifCFF()
		total := 0
		seen := map[string]bool{}
		for g := range c.Charstrings {
			l, gl, err := c.VerifSubrs(tables.GlyphID(g))
			if err != nil {
				continue
			}
			key := fmt.Sprintf("%p", l)
			if !seen[key] {
				seen[key] = true
				for _, s := range l {
					total += len(s)
				}
			}
			if !seen["g"] {
				seen["g"] = true
				for _, s := range gl {
					total += len(s)
				}
			}
		}
		out = append(out, c10fInfo{rel, len(c.Charstrings), total})
		return nil
	})
	sort.Slice(out, func(i, j int) bool { return out[i].rel < out[j].rel })
	return out
}

func c10fLoad(rel string) (ft *font.Font) {
	defer func() {
		if recover() != nil {
			ft = nil
		}
	}()
	file, err := os.ReadFile(filepath.Join(c10Root(), rel))
	if err != nil {
		return nil
	}
	ld, err := ot.NewLoader(bytes.NewReader(file))
	if err != nil {
		return nil
	}
	ft, err = font.NewFont(ld)
	if err != nil {
		return nil
	}
	return ft
}

// ---- generation ---------------------------------------------------------------------------------

func c10fGen(r *vh.Rand, tier string, n int, emit func(any)) {
	nSynth := 40
	if tier == "search" {
		nSynth = 200
	} else if tier != "quick" {
		nSynth = 800
	}
	for i := 0; i < nSynth; i++ {
		emit(c10fGenSynth(r))
	}
	for i := 0; i < nSynth/2; i++ {
		emit(c10fGenSynth2(r))
	}
	c10fGenFonts2(r, tier, emit)
	corpus := c10fCorpus()
	order := r.Perm(len(corpus))
	budget := n
	perCase := 15
	maxSubr := 4000
	if tier == "thorough" {
		maxSubr = 1 << 30
		perCase = 120
	}
	for _, ci := range order {
		if budget <= 0 {
			break
		}
		info := corpus[ci]
		if info.subrBytes > maxSubr {
			continue
		}
		var gids []int
		if tier == "thorough" {
			for g := 0; g < info.nGlyphs; g++ {
				gids = append(gids, g)
			}
		} else {
			for _, g := range r.Perm(info.nGlyphs) {
				if len(gids) >= perCase {
					break
				}
				gids = append(gids, g)
			}
			sort.Ints(gids)
		}
		for lo := 0; lo < len(gids); lo += perCase {
			hi := lo + perCase
			if hi > len(gids) {
				hi = len(gids)
			}
			emit(c10fInput{Kind: "font", Font: info.rel, Gids: gids[lo:hi]})
			budget -= hi - lo
		}
	}
}

// Type 2 number encodings
func c10fNum(r *vh.Rand, v int) []byte {
	switch {
	case v >= -107 && v <= 107 && r.Chance(80):
		return []byte{byte(v + 139)}
	case v >= 108 && v <= 1131 && r.Chance(80):
		v -= 108
		return []byte{byte(247 + v>>8), byte(v)}
	case v <= -108 && v >= -1131 && r.Chance(80):
		v = -v - 108
		return []byte{byte(251 + v>>8), byte(v)}
	case v >= -32768 && v <= 32767 && r.Chance(85):
		return []byte{28, byte(v >> 8), byte(v)}
	default: // 16.16 fixed, with a fraction
		f := int32(v)<<16 | int32(r.Intn(65536))
		if r.Chance(30) {
			f = int32(v) << 16
		}
		return []byte{255, byte(f >> 24), byte(f >> 16), byte(f >> 8), byte(f)}
	}
}

func c10fGenProgram(r *vh.Rand, nLocal, nGlobal int, depth int, top bool) []byte {
	return c10fGenProgramV(r, nLocal, nGlobal, depth, top, nil)
}

// ks != nil: a CFF2 program (blend / vsindex, no endchar / return except 5% of the time)
func c10fGenProgramV(r *vh.Rand, nLocal, nGlobal int, depth int, top bool, ks []int) []byte {
	var out []byte
	curK := 0
	if len(ks) > 0 {
		curK = ks[0]
	}
	val := func() int {
		switch r.Intn(10) {
		case 0:
			return r.Range(-1200, 1200)
		case 1:
			return []int{0, 1, -1, 107, 108, -107, -108, 1131, 1132, -1131, -1132, 32767, -32768}[r.Intn(13)]
		default:
			return r.Range(-300, 300)
		}
	}
	push := func(k int) {
		for i := 0; i < k; i++ {
			out = append(out, c10fNum(r, val())...)
		}
	}
	nOps := r.Range(1, 9)
	stems := 0
	for i := 0; i < nOps; i++ {
		extra := 0
		if r.Chance(6) {
			extra = r.Range(1, 2) // wrong operand count
		}
		if ks != nil && r.Chance(25) {
			if r.Chance(25) && len(ks) > 0 { // vsindex
				idx := r.Intn(len(ks))
				if r.Chance(10) {
					idx = r.Range(-2, len(ks)+1)
				}
				out = append(out, c10fNum(r, idx)...)
				out = append(out, 15)
				if idx >= 0 && idx < len(ks) {
					curK = ks[idx]
				}
			} else { // blend: n operands with curK deltas each, then an operator using the n results
				n := r.Range(1, 3)
				cnt := n * (curK + 1)
				if r.Chance(8) {
					cnt += r.Range(-2, 2)
					if cnt < 0 {
						cnt = 0
					}
				}
				push(cnt)
				out = append(out, c10fNum(r, n)...)
				out = append(out, 16)
				if r.Chance(70) {
					out = append(out, []byte{21, 5, 22, 4, 6, 7}[r.Intn(6)])
				}
			}
			continue
		}
		switch r.Intn(24) {
		case 0:
			push(2 + extra)
			out = append(out, 21)
		case 1:
			push(1 + extra)
			out = append(out, 22)
		case 2:
			push(1 + extra)
			out = append(out, 4)
		case 3:
			push(2*r.Range(1, 4) + extra)
			out = append(out, 5)
		case 4:
			push(r.Range(1, 7))
			out = append(out, 6)
		case 5:
			push(r.Range(1, 7))
			out = append(out, 7)
		case 6:
			push(6*r.Range(1, 3) + extra)
			out = append(out, 8)
		case 7:
			push(4*r.Range(1, 3) + r.Intn(2))
			out = append(out, 27)
		case 8:
			push(4*r.Range(1, 3) + r.Intn(2))
			out = append(out, 26)
		case 9:
			push([]int{4, 5, 8, 9, 12, 13, 16, 17, 20, 21, 24, 25}[r.Intn(12)] + extra)
			out = append(out, 30)
		case 10:
			push([]int{4, 5, 8, 9, 12, 13, 16, 17, 20, 21, 24, 25}[r.Intn(12)] + extra)
			out = append(out, 31)
		case 11:
			push(6*r.Range(1, 3) + 2 + extra)
			out = append(out, 24)
		case 12:
			push(2*r.Range(1, 3) + 6 + extra)
			out = append(out, 25)
		case 13:
			push(7 + extra)
			out = append(out, 12, 34)
		case 14:
			push(13 + extra)
			out = append(out, 12, 35)
		case 15:
			push(9 + extra)
			out = append(out, 12, 36)
		case 16:
			push(11 + extra)
			out = append(out, 12, 37)
		case 17:
			k := r.Range(1, 3)
			push(2*k + r.Intn(2))
			out = append(out, []byte{1, 18, 3, 23}[r.Intn(4)])
			stems += k
		case 18:
			k := r.Intn(3)
			push(2 * k)
			out = append(out, []byte{19, 20}[r.Intn(2)])
			stems += k
			nb := (stems + 7) / 8
			if r.Chance(10) {
				nb = r.Intn(3)
			}
			out = append(out, r.Bytes(nb)...)
		case 19, 20:
			if depth < 11 && nLocal > 0 {
				bias := 107
				idx := r.Intn(nLocal) - bias
				if r.Chance(5) {
					idx = r.Range(-200, 200)
				}
				if r.Chance(30) {
					push(r.Intn(3))
				}
				out = append(out, c10fNum(r, idx)...)
				out = append(out, 10)
			}
		case 21:
			if depth < 11 && nGlobal > 0 {
				idx := r.Intn(nGlobal) - 107
				out = append(out, c10fNum(r, idx)...)
				out = append(out, 29)
			}
		case 22:
			if r.Chance(30) {
				out = append(out, byte(r.Intn(32))) // any operator byte
			} else {
				push(1)
			}
		case 23:
			if r.Chance(20) {
				out = append(out, 12, byte(r.Intn(40)))
			}
		}
	}
	if ks != nil {
		if r.Chance(5) {
			out = append(out, []byte{11, 14}[r.Intn(2)]) // not CFF2 operators
		}
	} else if top {
		if r.Chance(90) {
			if r.Chance(20) {
				push(1)
			}
			out = append(out, 14)
		}
	} else if r.Chance(85) {
		out = append(out, 11)
	}
	if r.Chance(4) && len(out) > 2 { // truncated
		out = out[:r.Intn(len(out))]
	}
	return out
}

func c10fGenSynth(r *vh.Rand) c10fInput {
	nLocal, nGlobal := r.Intn(5), r.Intn(4)
	in := c10fInput{Kind: "synth"}
	for i := 0; i < nLocal; i++ {
		// subroutine i may only call higher-numbered ones most of the time (cycles are stopped by the call stack limit)
		in.Local = append(in.Local, c10fGenProgram(r, nLocal, nGlobal, 3, false))
	}
	for i := 0; i < nGlobal; i++ {
		in.Global = append(in.Global, c10fGenProgram(r, 0, nGlobal, 8, false))
	}
	k := r.Range(3, 8)
	for i := 0; i < k; i++ {
		in.CS = append(in.CS, c10fGenProgram(r, nLocal, nGlobal, 0, true))
	}
	return in
}

func c10fGenSynth2(r *vh.Rand) c10fInput {
	nLocal, nGlobal := r.Intn(5), r.Intn(4)
	in := c10fInput{Kind: "synth2"}
	nv := r.Intn(4)
	for i := 0; i < nv; i++ {
		k := r.Intn(4)
		in.KS = append(in.KS, k)
		in.Valid = append(in.Valid, k == 0 || !r.Chance(8)) // without region there is no region index to be wrong
	}
	ks := in.KS
	if ks == nil {
		ks = []int{}
	}
	in.DefVS = 0
	if r.Chance(20) {
		in.DefVS = r.Range(-1, nv+1)
	}
	if in.DefVS > 0 && in.DefVS < nv {
		ks = append([]int{ks[in.DefVS]}, ks[1:]...) // the generator assumes ks[0] is the active one
	}
	for i := 0; i < nLocal; i++ {
		in.Local = append(in.Local, c10fGenProgramV(r, nLocal, nGlobal, 3, false, ks))
	}
	for i := 0; i < nGlobal; i++ {
		in.Global = append(in.Global, c10fGenProgramV(r, 0, nGlobal, 8, false, ks))
	}
	k := r.Range(3, 8)
	for i := 0; i < k; i++ {
		in.CS = append(in.CS, c10fGenProgramV(r, nLocal, nGlobal, 0, true, ks))
	}
	return in
}

func c10fMin(a, b int) int {
	if a < b {
		return a
	}
	return b
}

// corpus fonts with a CFF2 table
func c10fGenFonts2(r *vh.Rand, tier string, emit func(any)) {
	root := c10Root()
	var rels []string
	filepath.Walk(root, func(p string, info os.FileInfo, err error) error {
		if err != nil || info.IsDir() || !(strings.HasSuffix(p, ".otf") || strings.HasSuffix(p, ".ttf")) {
			return nil
		}
		file, err := os.ReadFile(p)
		if err != nil || len(file) < 12 || !bytes.Contains(file[:c10fMin(len(file), 4096)], []byte("CFF2")) {
			return nil
		}
		rel, _ := filepath.Rel(root, p)
		rels = append(rels, rel)
		return nil
	})
	sort.Strings(rels)
	for _, rel := range rels {
		ft := c10fLoad(rel)
		if ft == nil {
			continue
		}
		if ft.VerifCFF2() == nil {
			// every corpus font with a CFF2 table is well-formed: the run reports the rejection
			emit(c10fInput{Kind: "font2", Font: rel})
			continue
		}
		n := len(ft.VerifCFF2().Charstrings)
		k := 12
		if tier == "thorough" {
			k = 600
		}
		var gids []int
		if n <= k {
			for g := 0; g < n; g++ {
				gids = append(gids, g)
			}
		} else {
			for _, g := range r.Perm(n)[:k] {
				gids = append(gids, g)
			}
			sort.Ints(gids)
		}
		for lo := 0; lo < len(gids); lo += 60 {
			hi := lo + 60
			if hi > len(gids) {
				hi = len(gids)
			}
			emit(c10fInput{Kind: "font2", Font: rel, Gids: gids[lo:hi]})
		}
	}
}

// ---- execution ----------------------------------------------------------------------------------

// c10fSegs prints the segments; every float32 coordinate as value * 2^(149-shift), shift = 149 (all integers) or 133
func c10fSegs(segs []ot.Segment) (string, int, string) {
	bad := ""
	shift := 149
	for _, s := range segs {
		for _, a := range s.Args {
			for _, v := range []float32{a.X, a.Y} {
				if float64(v) != math.Trunc(float64(v)) {
					shift = 133
				}
			}
		}
	}
	scale := 1.0
	if shift == 133 {
		scale = 65536
	}
	num := func(v float32) string {
		d := float64(v) * scale
		if d != math.Trunc(d) || math.IsInf(d, 0) || math.IsNaN(d) || math.Abs(d) >= 1<<62 {
			bad = fmt.Sprintf("coordinate %v is not a multiple of 2^-16", v)
			return "0"
		}
		return vh.Z(int64(d))
	}
	el := make([]string, len(segs))
	for i, s := range segs {
		a := s.Args
		b := func(k int) string { return num(a[k].X) + " " + num(a[k].Y) }
		switch s.Op {
		case ot.SegmentOpMoveTo:
			el[i] = "S0 " + b(0)
		case ot.SegmentOpLineTo:
			el[i] = "S1 " + b(0)
		case ot.SegmentOpCubeTo:
			el[i] = "S3 " + b(0) + " " + b(1) + " " + b(2)
		default:
			el[i] = "S0 0 0"
			bad = fmt.Sprintf("segment %d: unexpected op %d", i, s.Op)
		}
	}
	return vh.List(el), shift, bad
}

// value * 2^16 as an integer; ok = false when the float64 is not such a multiple
func c10fFix(v float64) (int64, bool) {
	d := v * 65536
	if d != math.Trunc(d) || math.IsInf(d, 0) || math.IsNaN(d) || math.Abs(d) >= 1<<52 {
		return 0, false
	}
	return int64(d), true
}

func c10fGlyph(gid int, cs []byte, segs []ot.Segment, bounds ps.PathBounds, err error, ext ot.GlyphExtents) (string, string) {
	segS, shift, bad := c10fSegs(segs)
	var bz [4]string
	for i, v := range []float64{bounds.Min.X, bounds.Min.Y, bounds.Max.X, bounds.Max.Y} {
		f, ok := c10fFix(v)
		if !ok && err == nil {
			bad = fmt.Sprintf("bound %v is not a multiple of 2^-16", v)
		}
		bz[i] = vh.Z(f)
	}
	if err != nil {
		segS = "[]"
	}
	return vh.App("mkCG", vh.Zi(gid), vh.BytesLit(cs), vh.Bool(err != nil), vh.Zi(shift), segS, vh.Tuple(bz[0], bz[1], bz[2], bz[3]),
		vh.Tuple(c10cBits(ext.XBearing), c10cBits(ext.YBearing), c10cBits(ext.Width), c10cBits(ext.Height))), bad
}

func c10fSubrs(l [][]byte) string {
	el := make([]string, len(l))
	for i, s := range l {
		el[i] = vh.BytesLit(s)
	}
	return vh.List(el)
}

func c10fRun(o *vh.Out, inAny any) {
	in := inAny.(c10fInput)
	var (
		fails   []string
		classes []string
	)
	type group struct {
		local, global [][]byte
		glyphs        []string
		cff2          bool
		ks            []int
		valid         []bool
		defVS         int
	}
	var groups []*group
	func() {
		defer func() {
			if p := recover(); p != nil {
				fails = append(fails, fmt.Sprintf("panic: %v", p))
			}
		}()
		switch in.Kind {
		case "synth":
			g := &group{local: in.Local, global: in.Global}
			for i, cs := range in.CS {
				segs, bounds, err := cff.VerifRunCharstring(cs, in.Local, in.Global)
				s, bad := c10fGlyph(i, cs, segs, bounds, err, bounds.ToExtents())
				if bad != "" {
					fails = append(fails, bad)
				}
				g.glyphs = append(g.glyphs, s)
				if err != nil {
					o.Count("cs_error")
				} else {
					o.Count(fmt.Sprintf("cs_segments=%d", bucket(len(segs))))
				}
			}
			groups = append(groups, g)
			classes = append(classes, "synthetic_charstrings")
		case "synth2":
			g := &group{local: in.Local, global: in.Global, cff2: true, ks: in.KS, valid: in.Valid, defVS: in.DefVS}
			for i, cs := range in.CS {
				segs, bounds, err := cff.VerifRunCharstring2(cs, in.Local, in.Global, in.KS, in.Valid, in.DefVS)
				s, bad := c10fGlyph(i, cs, segs, bounds, err, bounds.ToExtents())
				if bad != "" {
					fails = append(fails, bad)
				}
				g.glyphs = append(g.glyphs, s)
				if err != nil {
					o.Count("cs2_error")
				} else {
					o.Count(fmt.Sprintf("cs2_segments=%d", bucket(len(segs))))
				}
			}
			groups = append(groups, g)
			classes = append(classes, "synthetic_cff2_charstrings")
		case "font2":
			ft := c10fLoad(in.Font)
			if ft == nil {
				fails = append(fails, "driver: cannot load "+in.Font)
				return
			}
			if ft.VerifCFF2() == nil {
				fails = append(fails, "the CFF2 table of the corpus font "+in.Font+" is rejected by cff.ParseCFF2")
				return
			}
			c := ft.VerifCFF2()
			face := font.NewFace(ft)
			byKey := map[string]*group{}
			for _, gid := range in.Gids {
				if gid >= len(c.Charstrings) {
					continue
				}
				local, global, ks, valid, defVS, err := c.VerifGlyphEnv2(tables.GlyphID(gid))
				if err != nil {
					o.Count("fdselect_error")
					continue
				}
				key := fmt.Sprintf("%p/%d", local, defVS)
				g := byKey[key]
				if g == nil {
					g = &group{local: local, global: global, cff2: true, ks: ks, valid: valid, defVS: defVS}
					byKey[key] = g
					groups = append(groups, g)
				}
				segs, bounds, err := c.LoadGlyph(tables.GlyphID(gid), nil)
				ext := bounds.ToExtents()
				if err == nil {
					if fe, ok := face.GlyphExtents(font.GID(gid)); !ok || fe != ext {
						fails = append(fails, fmt.Sprintf("glyph %d: Face.GlyphExtents %v (ok=%v) != bounds.ToExtents %v", gid, fe, ok, ext))
					}
					ol, ok := face.GlyphData(font.GID(gid)).(font.GlyphOutline)
					if !ok || len(ol.Segments) != len(segs) {
						fails = append(fails, fmt.Sprintf("glyph %d: Face.GlyphData is not the CFF2 outline", gid))
					} else {
						for i := range segs {
							if segs[i] != ol.Segments[i] {
								fails = append(fails, fmt.Sprintf("glyph %d: Face.GlyphData segment %d differs", gid, i))
								break
							}
						}
					}
					o.Count(fmt.Sprintf("cff2_segments=%d", bucket(len(segs))))
					if len(local)+len(global) > 0 {
						o.Count("cff2_glyph_of_font_with_subrs")
					}
				} else {
					o.Count("cff2_error")
				}
				s, bad := c10fGlyph(gid, c.Charstrings[gid], segs, bounds, err, ext)
				if bad != "" {
					fails = append(fails, fmt.Sprintf("glyph %d: %s", gid, bad))
				}
				g.glyphs = append(g.glyphs, s)
			}
			classes = append(classes, "cff2_font")
		case "font":
			ft := c10fLoad(in.Font)
			if ft == nil || ft.VerifCFF() == nil {
				fails = append(fails, "driver: cannot load "+in.Font)
				return
			}
			c := ft.VerifCFF()
			face := font.NewFace(ft)
			byKey := map[string]*group{}
			for _, gid := range in.Gids {
				if gid >= len(c.Charstrings) {
					continue
				}
				local, global, err := c.VerifSubrs(tables.GlyphID(gid))
				if err != nil {
					o.Count("fdselect_error")
					continue
				}
				key := fmt.Sprintf("%p", local)
				g := byKey[key]
				if g == nil {
					g = &group{local: local, global: global}
					byKey[key] = g
					groups = append(groups, g)
				}
				segs, bounds, err := c.LoadGlyph(tables.GlyphID(gid))
				ext := bounds.ToExtents()
				if err == nil {
					// the public API must hand out the same data
					if fe, ok := face.GlyphExtents(font.GID(gid)); !ok || fe != ext {
						fails = append(fails, fmt.Sprintf("glyph %d: Face.GlyphExtents %v (ok=%v) != bounds.ToExtents %v", gid, fe, ok, ext))
					}
					ol, ok := face.GlyphData(font.GID(gid)).(font.GlyphOutline)
					if !ok || len(ol.Segments) != len(segs) {
						fails = append(fails, fmt.Sprintf("glyph %d: Face.GlyphData is not the CFF outline", gid))
					} else {
						for i := range segs {
							if segs[i] != ol.Segments[i] {
								fails = append(fails, fmt.Sprintf("glyph %d: Face.GlyphData segment %d differs", gid, i))
								break
							}
						}
					}
					o.Count(fmt.Sprintf("cff_segments=%d", bucket(len(segs))))
				} else {
					o.Count("cff_error")
				}
				s, bad := c10fGlyph(gid, c.Charstrings[gid], segs, bounds, err, ext)
				if bad != "" {
					fails = append(fails, fmt.Sprintf("glyph %d: %s", gid, bad))
				}
				g.glyphs = append(g.glyphs, s)
			}
			classes = append(classes, "cff_font")
		default:
			fails = append(fails, "unknown kind "+in.Kind)
		}
	}()
	if len(groups) == 0 {
		groups = append(groups, &group{})
	}
	for gi, g := range groups {
		coq := vh.App("CCff", c10fSubrs(g.local), c10fSubrs(g.global), vh.List(g.glyphs))
		if g.cff2 {
			vs := make([]string, len(g.ks))
			for i := range g.ks {
				vs[i] = vh.Tuple(vh.Zi(g.ks[i]), vh.Bool(g.valid[i]))
			}
			coq = vh.App("CCff2", c10fSubrs(g.local), c10fSubrs(g.global), vh.List(vs), vh.Zi(g.defVS), vh.List(g.glyphs))
		}
		key := ""
		if len(g.glyphs) > 0 {
			key = coq
		}
		idx := o.Add(in, coq, key, classes...)
		if gi == 0 {
			for _, f := range fails {
				kind := "impl"
				if strings.HasPrefix(f, "panic") {
					kind = "panic"
				}
				o.Fail(idx, kind, f)
			}
		}
	}
}
