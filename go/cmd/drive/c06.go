package main

import (
	"encoding/json"
	"fmt"
	"sort"
	"unicode"

	"github.com/go-text/typesetting/segmenter"
	ucd "github.com/go-text/typesetting/unicodedata"

	"verifharness/internal/vh"
)

// c06Input: a reuse history (paragraphs given to the same Segmenter before) and the text under test.
type c06Input struct {
	History [][]rune `json:"history,omitempty"`
	Text    []rune   `json:"text"`
}

var c06LineOrder = []*unicode.RangeTable{
	ucd.BreakBK, ucd.BreakCR, ucd.BreakLF, ucd.BreakNL, ucd.BreakSP, ucd.BreakNU, ucd.BreakAL, ucd.BreakIS, ucd.BreakPR,
	ucd.BreakPO, ucd.BreakOP, ucd.BreakCL, ucd.BreakCP, ucd.BreakQU, ucd.BreakHY, ucd.BreakSG, ucd.BreakGL, ucd.BreakNS,
	ucd.BreakEX, ucd.BreakSY, ucd.BreakHL, ucd.BreakID, ucd.BreakIN, ucd.BreakBA, ucd.BreakBB, ucd.BreakB2, ucd.BreakZW,
	ucd.BreakCM, ucd.BreakEB, ucd.BreakEM, ucd.BreakWJ, ucd.BreakZWJ, ucd.BreakH2, ucd.BreakH3, ucd.BreakJL, ucd.BreakJV,
	ucd.BreakJT, ucd.BreakRI, ucd.BreakCB, ucd.BreakAI, ucd.BreakCJ, ucd.BreakSA, ucd.BreakXX,
}
var c06GraphemeOrder = []*unicode.RangeTable{
	nil, ucd.GraphemeBreakCR, ucd.GraphemeBreakControl, ucd.GraphemeBreakExtend, ucd.GraphemeBreakL, ucd.GraphemeBreakLF,
	ucd.GraphemeBreakLV, ucd.GraphemeBreakLVT, ucd.GraphemeBreakPrepend, ucd.GraphemeBreakRegional_Indicator,
	ucd.GraphemeBreakSpacingMark, ucd.GraphemeBreakT, ucd.GraphemeBreakV, ucd.GraphemeBreakZWJ,
}
var c06WordOrder = []*unicode.RangeTable{
	nil, ucd.WordBreakALetter, ucd.WordBreakDouble_Quote, ucd.WordBreakExtendFormat, ucd.WordBreakExtendNumLet,
	ucd.WordBreakHebrew_Letter, ucd.WordBreakKatakana, ucd.WordBreakMidLetter, ucd.WordBreakMidNum, ucd.WordBreakMidNumLet,
	ucd.WordBreakNewlineCRLF, ucd.WordBreakNumeric, ucd.WordBreakRegional_Indicator, ucd.WordBreakSingle_Quote,
	ucd.WordBreakWSegSpace,
}

func c06Index(tabs []*unicode.RangeTable, t *unicode.RangeTable) int {
	for i, x := range tabs {
		if x == t {
			return i
		}
	}
	panic("class table not in the expected order list")
}

// independent class assignment: every per-class table painted range by range into one array per family (first table of
// the order list wins), without the lookup functions, their bisection or their prefilter tables.
var c06Paint [3][]uint8

func c06Painted() *[3][]uint8 {
	if c06Paint[0] != nil {
		return &c06Paint
	}
	paint := func(order []*unicode.RangeTable, def uint8) []uint8 {
		a := make([]uint8, 0x110000)
		for i := range a {
			a[i] = def
		}
		for i := len(order) - 1; i >= 0; i-- {
			t := order[i]
			if t == nil {
				continue
			}
			for _, x := range t.R16 {
				for c := uint32(x.Lo); c <= uint32(x.Hi); c += uint32(x.Stride) {
					a[c] = uint8(i)
				}
			}
			for _, x := range t.R32 {
				for c := x.Lo; c <= x.Hi && c < 0x110000; c += x.Stride {
					a[c] = uint8(i)
				}
			}
		}
		return a
	}
	c06Paint[0] = paint(c06LineOrder, uint8(c06Index(c06LineOrder, ucd.BreakXX)))
	c06Paint[1] = paint(c06GraphemeOrder, 0)
	c06Paint[2] = paint(c06WordOrder, 0)
	return &c06Paint
}

// c06LookupDisagrees: the class the lookup functions return for r differs from the per-class tables themselves
func c06LookupDisagrees(r rune) string {
	if r < 0 || r > 0x10FFFF {
		return ""
	}
	p := c06Painted()
	if lb := c06Index(c06LineOrder, ucd.LookupLineBreakClass(r)); lb != int(p[0][r]) {
		return fmt.Sprintf("LookupLineBreakClass(U+%04X) returns class #%d of the order list, the per-class tables say #%d", r, lb, p[0][r])
	}
	if gb := c06Index(c06GraphemeOrder, ucd.LookupGraphemeBreakClass(r)); gb != int(p[1][r]) {
		return fmt.Sprintf("LookupGraphemeBreakClass(U+%04X) returns class #%d of the order list (0 = nil), the per-class tables say #%d", r, gb, p[1][r])
	}
	if wb := c06Index(c06WordOrder, ucd.LookupWordBreakClass(r)); wb != int(p[2][r]) {
		return fmt.Sprintf("LookupWordBreakClass(U+%04X) returns class #%d of the order list (0 = nil), the per-class tables say #%d", r, wb, p[2][r])
	}
	return ""
}

var c06Disagree []rune // code points on which the lookups disagree with the class tables (found while computing the representatives)

// c06Obs computes the observation code of a rune: the three classes from the per-class tables themselves (painted, see
// above; the lookup functions are compared with them on every code point), the rest as the segmenter reads it.
func c06Obs(r rune) int64 {
	var lb, gb, wb int
	if r >= 0 && r <= 0x10FFFF {
		p := c06Painted()
		lb, gb, wb = int(p[0][r]), int(p[1][r]), int(p[2][r])
	} else {
		lb = c06Index(c06LineOrder, ucd.LookupLineBreakClass(r))
		gb = c06Index(c06GraphemeOrder, ucd.LookupGraphemeBreakClass(r))
		wb = c06Index(c06WordOrder, ucd.LookupWordBreakClass(r))
	}
	ty := ucd.LookupType(r)
	f := 0
	set := func(bit int, b bool) {
		if b {
			f |= 1 << bit
		}
	}
	set(0, ty == unicode.Mn || ty == unicode.Mc)
	set(1, ty == nil)
	set(2, unicode.Is(ucd.LargeEastAsian, r))
	set(3, unicode.Is(ucd.Extended_Pictographic, r))
	set(4, unicode.Is(ucd.BreakZWJ, r))
	set(5, r == '\n')
	set(6, r == '\r')
	set(7, r == 0x200D)
	set(8, r == 0x22)
	set(9, unicode.Is(ucd.Word, r))
	return int64(lb) + 43*(int64(gb)+14*(int64(wb)+15*int64(f)))
}

// representatives: one rune per distinct observation code over all code points (computed once)
var c06Reps []rune

func c06Representatives() []rune {
	if c06Reps != nil {
		return c06Reps
	}
	seen := map[int64]rune{}
	for r := rune(0); r <= 0x10FFFF; r++ {
		if r >= 0xD800 && r <= 0xDFFF {
			continue
		}
		c := c06Obs(r)
		if _, ok := seen[c]; !ok {
			seen[c] = r
		}
		if len(c06Disagree) < 24 && c06LookupDisagrees(r) != "" {
			c06Disagree = append(c06Disagree, r)
		}
	}
	for _, r := range seen {
		c06Reps = append(c06Reps, r)
	}
	sort.Slice(c06Reps, func(i, j int) bool { return c06Reps[i] < c06Reps[j] })
	return c06Reps
}

// c06Boundaries: lo-1, lo, hi, hi+1 (and the stride neighbours) of every range of the tables the segmenter reads
// directly with unicode.Is (the class lookups have their boundary pool in C20): inputs for the comparison of
// obs_of_rune (regenerated tables, evaluated in Coq) with c06Obs.
func c06Boundaries() []rune {
	seen := map[rune]bool{}
	var out []rune
	add := func(x int64) {
		if x < 0 || x > 0x10FFFF || seen[rune(x)] {
			return
		}
		seen[rune(x)] = true
		out = append(out, rune(x))
	}
	rng := func(lo, hi, st int64) {
		add(lo - 1)
		add(lo)
		add(hi)
		add(hi + 1)
		if st > 1 {
			add(lo + 1)
			add(lo + st)
			add(hi - 1)
		}
	}
	for _, t := range []*unicode.RangeTable{ucd.Extended_Pictographic, ucd.LargeEastAsian, ucd.Word, ucd.BreakZWJ, unicode.Mn, unicode.Mc} {
		for _, x := range t.R16 {
			rng(int64(x.Lo), int64(x.Hi), int64(x.Stride))
		}
		for _, x := range t.R32 {
			rng(int64(x.Lo), int64(x.Hi), int64(x.Stride))
		}
	}
	return out
}

// c06RandomRune: any int32 can be stored in a []rune; mostly code points, BMP-biased
func c06RandomRune(r *vh.Rand) rune {
	switch r.Intn(16) {
	case 0:
		return rune(int32(r.Uint32())) // any int32, negative ones included
	case 1:
		return rune(0x110000 + r.Intn(0x1000))
	case 2, 3, 4, 5:
		return rune(r.Intn(0x110000))
	case 6, 7:
		return rune(0x10000 + r.Intn(0x10000))
	default:
		return rune(r.Intn(0x10000))
	}
}

func init() {
	drivers["c06"] = &driver{
		header: "From TV Require Import Check.C06.",
		shard:  1000,
		n: func(tier string) int {
			if tier == "quick" {
				return 6000
			}
			return 60000
		},
		decode: func(raw json.RawMessage) (any, error) {
			var in c06Input
			err := json.Unmarshal(raw, &in)
			return in, err
		},
		gen: c06Gen,
		run: c06Run,
	}
}

// rule-targeted alphabets: runes that exercise the long contexts
var c06Focus = [][]rune{
	[]rune(" ​ ⁠()[]\"'!?.,;:-/\\$%€1٣aא́‍あア가각—…\n\r\u0085 "),
	{0x1F1E6, 0x1F1E7, 0x1F1E8, 0x0301, 0x200D, 0x1F600, 0x1F3FB, 0x2764, 0xFE0F, 'a', ' ', 0x1FAF9, 0x1F46E, 0xE0020},
	[]rune("$(-1,2.3)%ab ́‍กั"),
	{0x05D0, '"', '\'', 0x0301, 0x00AD, 'a', '1', ',', '.', ':', '_', 0x30A2, ' ', 0x3000, 0x200D, '\n'},
}

func c06Gen(r *vh.Rand, tier string, n int, emit func(any)) {
	reps := c06Representatives()
	emit(c06Input{Text: nil})
	// code points whose looked-up class differs from the class tables, alone and between letters / digits / marks
	for _, x := range c06Disagree {
		emit(c06Input{Text: []rune{x}})
		for _, c := range [][2]rune{{'a', 'a'}, {0x05D0, 0x05D0}, {'1', '1'}, {' ', 'a'}, {'a', 0x0301}, {0x1F1E6, 0x1F1E6}, {0x200D, 0x1F600}} {
			emit(c06Input{Text: []rune{c[0], x, c[1]}})
			emit(c06Input{Text: []rune{c[0], c[0], x, c[1], c[1]}})
		}
	}
	// exhaustive: all strings of length 1 and 2 over the class representatives
	for _, a := range reps {
		emit(c06Input{Text: []rune{a}})
	}
	if tier != "search" {
		for _, a := range reps {
			for _, b := range reps {
				emit(c06Input{Text: []rune{a, b}})
			}
		}
	}
	// rule-family exhaustive scopes: every string up to a length over a small alphabet that feeds one of the
	// look-behind state machines (emoji ZWJ sequences and RI parity; WB4 skipping with the mid-letter/quote rules;
	// LB9/LB10 with the numeric and space contexts)
	families := []struct {
		alphabet []rune
		maxLen   int
	}{
		{[]rune{0x1F600, 0x200D, 0x0301, 0x1F1E6, 'a', 0x1F3FB}, 5},
		{[]rune{'a', 0x05D0, '"', '\'', ':', '1', ',', 0x0301, 0x200D}, 4},
		{[]rune{'$', '(', '1', ',', ')', 0x0301, ' ', 'a', '-', 0x200D, '%'}, 4},
		{[]rune{0x05D0, '-', 0x0308, 'a', ' ', 0x200B, 0x2014, '"', '(', 0x1F1E6}, 4},
	}
	if tier == "thorough" {
		for i := range families {
			families[i].maxLen++
		}
	}
	if tier != "search" {
		for _, f := range families {
			var rec func(prefix []rune)
			rec = func(prefix []rune) {
				if len(prefix) >= 3 { // lengths 1, 2 are covered by the representative sweep
					emit(c06Input{Text: append([]rune(nil), prefix...)})
				}
				if len(prefix) == f.maxLen {
					return
				}
				for _, c := range f.alphabet {
					rec(append(prefix, c))
				}
			}
			rec(nil)
		}
	}
	// single runes for the observation correspondence: table boundaries, then n/3 random runes
	if tier != "search" {
		for _, a := range c06Boundaries() {
			emit(c06Input{Text: []rune{a}})
		}
	}
	for i := 0; i < n/3; i++ {
		emit(c06Input{Text: []rune{c06RandomRune(r)}})
	}
	// LB25 look-ahead past the marks attached to an opening punctuation / hyphen: every tail of <= 3 runes over ordinary,
	// South-East-Asian (SA, Mn) and ZWJ marks, a digit and a letter, behind each relevant two-rune head
	if tier != "search" {
		tailAlphabet := []rune{0x0301, 0x0E34, 0x200D, '1', 'a'}
		for _, head := range [][]rune{{'$', '('}, {'$', '-'}, {'%', '('}, {'a', '('}} {
			var rec func(t []rune)
			rec = func(t []rune) {
				if len(t) > 0 {
					emit(c06Input{Text: append(append([]rune(nil), head...), t...)})
				}
				if len(t) == 3 {
					return
				}
				for _, c := range tailAlphabet {
					rec(append(t, c))
				}
			}
			rec(nil)
		}
	}
	pick := func() rune {
		switch r.Intn(10) {
		case 0, 1, 2:
			return reps[r.Intn(len(reps))]
		case 3:
			return rune(r.Intn(0x250))
		default:
			f := c06Focus[r.Intn(len(c06Focus))]
			return f[r.Intn(len(f))]
		}
	}
	text := func(maxLen int) []rune {
		l := r.Range(1, maxLen)
		t := make([]rune, l)
		for i := range t {
			t[i] = pick()
		}
		return t
	}
	for i := 0; i < n; i++ {
		var in c06Input
		switch {
		case i%10 < 5:
			in.Text = text(5)
		case i%10 < 8:
			in.Text = text(16)
		default:
			in.Text = text(64)
		}
		if r.Chance(25) { // reuse history: longer and shorter paragraphs before
			for k := r.Range(1, 3); k > 0; k-- {
				in.History = append(in.History, text(40))
			}
		}
		emit(in)
	}
}

func c06Codes(t []rune) []int64 {
	out := make([]int64, len(t))
	for i, r := range t {
		out[i] = c06Obs(r)
	}
	return out
}

// c06Packed writes every rune as code + 2^24 * r: the observation code computed by the library's lookups (< 2^24) and
// the code point itself, so that the checker can compare obs_of_rune r (regenerated tables, evaluated in Coq) with it.
func c06Packed(t []rune) []int64 {
	out := make([]int64, len(t))
	for i, r := range t {
		out[i] = c06Obs(r) + int64(r)*(1<<24)
	}
	return out
}

func c06Run(o *vh.Out, inAny any) {
	in := inAny.(c06Input)
	var seg segmenter.Segmenter
	var (
		attrs              []uint8
		lines, graph, word []string
		panicked           any
	)
	func() {
		defer func() { panicked = recover() }()
		for _, h := range in.History {
			seg.Init(h)
			li := seg.LineIterator() // use the iterators too, partially
			li.Next()
		}
		seg.Init(in.Text)
		attrs = seg.VerifAttributes()
		li := seg.LineIterator()
		for li.Next() {
			l := li.Line()
			lines = append(lines, vh.Tuple(vh.Zi(l.Offset), vh.Zi(len(l.Text)), vh.Bool(l.IsMandatoryBreak)))
		}
		gi := seg.GraphemeIterator()
		for gi.Next() {
			g := gi.Grapheme()
			graph = append(graph, vh.Tuple(vh.Zi(g.Offset), vh.Zi(len(g.Text))))
		}
		wi := seg.WordIterator()
		for wi.Next() {
			w := wi.Word()
			word = append(word, vh.Tuple(vh.Zi(w.Offset), vh.Zi(len(w.Text))))
		}
	}()
	hist := make([]string, len(in.History))
	for i, h := range in.History {
		hist[i] = vh.ZList(c06Packed(h))
	}
	a := make([]int64, len(attrs))
	for i, x := range attrs {
		a[i] = int64(x)
	}
	codes := c06Codes(in.Text)
	coq := vh.App("mkCase", vh.Z(c06Obs(0)), vh.Z(c06Obs(0x2029)), vh.List(hist), vh.ZList(c06Packed(in.Text)), vh.ZList(a),
		vh.List(lines), vh.List(graph), vh.List(word))
	key := ""
	if len(in.Text) >= 2 {
		key = fmt.Sprint(codes, len(in.History))
	}
	lenClass := "len<=2"
	switch {
	case len(in.Text) > 16:
		lenClass = "len<=64"
	case len(in.Text) > 5:
		lenClass = "len<=16"
	case len(in.Text) > 2:
		lenClass = "len<=5"
	}
	idx := o.Add(in, coq, key, lenClass, fmt.Sprintf("history=%d", len(in.History)))
	if panicked != nil {
		o.Fail(idx, "panic", fmt.Sprint(panicked))
	}
	for _, r := range in.Text {
		if msg := c06LookupDisagrees(r); msg != "" {
			o.Fail(idx, "class-lookup", msg)
			break
		}
	}
}
