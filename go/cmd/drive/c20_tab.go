package main

// Driver "c20tab": second part of C20 — script tags (ParseScript / String), vertical orientation, and the
// shaper's Unicode lookups (general category, Arabic joining type, Indic and USE categories, modified
// combining classes, Extended_Pictographic).  Checker: coq/Check/C20Tab.v.

import (
	"encoding/json"
	"fmt"
	"path/filepath"
	"sort"
	"unicode"

	hb "github.com/go-text/typesetting/harfbuzz"
	"github.com/go-text/typesetting/language"
	ucd "github.com/go-text/typesetting/unicodedata"

	"verifharness/internal/hbsrc"
	"verifharness/internal/vh"
)

type c20tInput struct {
	K  string `json:"k"` // script | cp | vo | join | idx | sweep
	T  int    `json:"t,omitempty"` // idx: 0 = indicTable, 1 = useTable
	I  int64  `json:"i,omitempty"` // idx: table index
	S  []byte `json:"s,omitempty"`
	R  int64  `json:"r,omitempty"`
	Sc uint32 `json:"sc,omitempty"`
	GC int    `json:"gc,omitempty"`
	Lo int64  `json:"lo,omitempty"` // sweep: code points Lo..Hi-1
	Hi int64  `json:"hi,omitempty"`
}

func init() {
	drivers["c20tab"] = &driver{
		header: "From TV Require Import Check.C20Tab.",
		shard:  250,
		n: func(tier string) int {
			if tier == "quick" {
				return 1500
			}
			return 30000
		},
		decode: func(raw json.RawMessage) (any, error) {
			var in c20tInput
			err := json.Unmarshal(raw, &in)
			return in, err
		},
		gen: c20tGen,
		run: c20tRun,
	}
}

// ---- the code part of the lookups, read from the sources ----

type c20tSrc struct {
	scripts    []hbsrc.ScriptConst
	indic, use *hbsrc.Paged
}

var c20tsrc *c20tSrc

func c20tSource() *c20tSrc {
	if c20tsrc != nil {
		return c20tsrc
	}
	scs, err := hbsrc.ScriptConsts(filepath.Dir(language.VerifC20SourceFile()))
	if err != nil {
		panic(err)
	}
	hp, err := hbsrc.Load(filepath.Dir(hb.VerifC20SourceFile()))
	if err != nil {
		panic(err)
	}
	ind, err := hp.PagedLookup("ot_indic_table.go", "indicGetCategories")
	if err != nil {
		panic(err)
	}
	use, err := hp.PagedLookup("ot_use_table.go", "getUSECategory")
	if err != nil {
		panic(err)
	}
	c20tsrc = &c20tSrc{scs, ind, use}
	return c20tsrc
}

// ---- generators ----

// c20tPoolOrdered returns the interesting code points in a deterministic order: bounds (and neighbours) of every
// clause and page of the Indic/USE dispatch, the Arabic joining keys, bounds of the vertical orientation exceptions,
// of Extended_Pictographic, of the shaper's general category tables and of the script ranges, and corner values.
func c20tPoolOrdered(ajk []int64) []int64 {
	seen := map[int64]bool{}
	var pool []int64
	add := func(x int64) {
		if x < -(1<<31) || x >= 1<<31 {
			return
		}
		if !seen[x] {
			seen[x] = true
			pool = append(pool, x)
		}
	}
	around := func(lo, hi int64) {
		add(lo - 1)
		add(lo)
		add(hi)
		add(hi + 1)
	}
	addTab := func(t *unicode.RangeTable) {
		if t == nil {
			return
		}
		for _, r := range t.R16 {
			around(int64(r.Lo), int64(r.Hi))
			if r.Stride > 1 {
				add(int64(r.Lo) + 1)
				add(int64(r.Lo) + int64(r.Stride))
			}
		}
		for _, r := range t.R32 {
			around(int64(r.Lo), int64(r.Hi))
			if r.Stride > 1 {
				add(int64(r.Lo) + 1)
				add(int64(r.Lo) + int64(r.Stride))
			}
		}
	}
	for _, x := range []int64{-1, 0, 0x7f, 0x80, 0xa0, 0xff, 0x100, 0xd7ff, 0xd800, 0xdfff, 0xe000, 0xe001, 0xf8ff, 0xf900, 0xfffd, 0xffff, 0x10000,
		0x4e00, 0x4e01, 0x9fff, 0xa000, 0xac00, 0xac01, 0xd7a3, 0xd7a4, 0x17000, 0x17001, 0x187f7, 0x18800, 0x20000, 0x20001, 0x2a6df,
		0x2ebf0, 0x2ee5d, 0x2ee5e, 0x2ffc, 0x2fff, 0x31ef, 0xf0000, 0xf0001, 0xffffd, 0x100000, 0x10fffd, 0x10ffff, 0x110000,
		1<<31 - 1, -(1 << 31), -4096, -4095, 0x1A60, 0x0FC6, 0x0F39, 0x25CC, 0x200C, 0x200D, 0x1E94B} {
		add(x)
	}
	src := c20tSource()
	for _, pl := range []*hbsrc.Paged{src.indic, src.use} {
		for _, pg := range pl.Pages {
			around(pg.Key<<uint(pl.Shift), (pg.Key+1)<<uint(pl.Shift)-1)
			for _, c := range pg.Clauses {
				around(c.Lo, c.Hi)
				add(c.Lo + 1)
				add((c.Lo + c.Hi) / 2)
			}
		}
	}
	for _, x := range ajk {
		add(x)
		add(x + 1)
	}
	for _, v := range ucd.VerifC20UprightOrMixedScripts() {
		addTab(v.Exceptions)
	}
	addTab(ucd.Extended_Pictographic)
	for _, t := range hb.VerifC20GeneralCategories() {
		addTab(t)
	}
	for _, r := range language.ScriptRanges {
		around(int64(r.Start), int64(r.End))
	}
	return pool
}

func c20tRandomCP(r *vh.Rand) int64 {
	switch r.Intn(10) {
	case 0:
		return int64(r.Intn(0x300))
	case 1, 2:
		return int64(0x600 + r.Intn(0x300)) // Arabic, Syriac ...
	case 3:
		return int64(0x900 + r.Intn(0x1200)) // Indic, Myanmar, Khmer ...
	case 4:
		return int64(0x10000 + r.Intn(0x10000))
	case 5:
		return int64(int32(r.Uint32()))
	default:
		return int64(r.Intn(0x110000))
	}
}

func c20tGen(r *vh.Rand, tier string, n int, emit func(any)) {
	src := c20tSource()
	// the exhaustive Go-side pass (every tier, see c20_full.go): all code points through the shaper's lookups and the
	// vertical orientation of their script and of every listed script; every Script constant and a few other values
	// through LookupVerticalOrientation; every one-byte edit of every script tag through ParseScript.  What it finds
	// becomes ordinary cases, whose run repeats the comparison and reports it.
	for _, x := range c20ScanAll(c20tCheckCP) {
		emit(c20tInput{K: "cp", R: x.a})
	}
	{
		var consts []uint32
		for _, s := range src.scripts {
			consts = append(consts, s.Val)
		}
		found := 0
		for _, sc := range append(append([]uint32{}, consts...), 0, 1, 0xffffffff, uint32(language.Latin)+1, uint32(language.Latin)^0x20000000,
			uint32(language.Hangul)+1, uint32(language.Hangul)-1, uint32(language.Han)|0x20000000) {
			if fn, _ := c20tCheckVO(language.Script(sc)); fn != "" && found < 6 {
				found++
				emit(c20tInput{K: "vo", Sc: sc, R: 0x41})
			}
		}
		for _, s := range c20tScanScripts(consts) {
			emit(c20tInput{K: "script", S: s})
		}
	}
	// every byte value inserted at every position of a Script constant's tag and substituted in its lower-case
	// spelling, through the Coq model as well
	{
		tag := []byte(language.Script(src.scripts[r.Intn(len(src.scripts))].Val).String())
		for pos := 0; pos <= len(tag); pos++ {
			for c := 0; c < 256; c++ {
				emit(c20tInput{K: "script", S: append(append(append([]byte{}, tag[:pos]...), byte(c)), tag[pos:]...)})
			}
		}
		for pos := 0; pos < len(tag); pos++ {
			for c := 0; c < 256; c++ {
				s := []byte{tag[0] | 0x20, tag[1], tag[2], tag[3]}
				s[pos] = byte(c)
				emit(c20tInput{K: "script", S: s})
			}
		}
	}
	// every Script constant: its tag, the tag in lower / upper case, the tag with a suffix
	for _, s := range src.scripts {
		tag := language.Script(s.Val).String()
		emit(c20tInput{K: "script", S: []byte(tag)})
	}
	lim := len(src.scripts)
	if tier == "quick" {
		lim = 40
	}
	for _, i := range r.Perm(len(src.scripts))[:lim] {
		tag := []byte(language.Script(src.scripts[i].Val).String())
		lo, up := make([]byte, 4), make([]byte, 4)
		for k, c := range tag {
			lo[k], up[k] = c|0x20, c&^0x20
		}
		emit(c20tInput{K: "script", S: lo})
		emit(c20tInput{K: "script", S: up})
		emit(c20tInput{K: "script", S: append(append([]byte{}, tag...), r.Bytes(r.Range(1, 3))...)})
		emit(c20tInput{K: "script", S: tag[:r.Intn(4)]})
	}
	for _, s := range []string{"", "a", "ab", "abc", "abcd", "ABCD", "\x00\x00\x00\x00", "\xff\xff\xff\xff", "\xff\x00\x01\x7f\x09", "1234", "zzzz", "Zzzz", "latn", "LATN", "lATN", " atn", "{}|~"} {
		emit(c20tInput{K: "script", S: []byte(s)})
	}
	for i := 0; i < n/10; i++ {
		emit(c20tInput{K: "script", S: r.Bytes(r.Range(0, 8))})
	}
	// vertical orientation: every listed script on the bounds of every exception table and a few other points,
	// unlisted scripts
	vos := ucd.VerifC20UprightOrMixedScripts()
	var vpts []int64
	for _, v := range vos {
		if v.Exceptions == nil {
			continue
		}
		for _, rg := range v.Exceptions.R16 {
			vpts = append(vpts, int64(rg.Lo)-1, int64(rg.Lo), int64(rg.Hi), int64(rg.Hi)+1)
		}
		for _, rg := range v.Exceptions.R32 {
			vpts = append(vpts, int64(rg.Lo)-1, int64(rg.Lo), int64(rg.Hi), int64(rg.Hi)+1)
		}
	}
	vpts = append(vpts, -1, 0, 0x41, 0x4e00, 0x10ffff, 0x110000)
	for _, v := range vos {
		per := 6
		if tier != "quick" || v.Exceptions != nil {
			per = len(vpts)
		}
		for _, i := range r.Perm(len(vpts))[:per] {
			emit(c20tInput{K: "vo", Sc: uint32(v.Script), R: vpts[i]})
		}
		emit(c20tInput{K: "vo", Sc: uint32(v.Script), R: c20tRandomCP(r)})
	}
	for i := 0; i < n/30; i++ {
		emit(c20tInput{K: "vo", Sc: src.scripts[r.Intn(len(src.scripts))].Val, R: vpts[r.Intn(len(vpts))]})
	}
	for _, sc := range []uint32{0, 0xffffffff, uint32(language.Latin) + 1, uint32(language.Latin) ^ 0x20000000} {
		emit(c20tInput{K: "vo", Sc: sc, R: 0x2160})
	}
	// getJoiningType with arbitrary categories
	aj := hb.VerifC20ArabicJoinings()
	var ajk []int64
	for k := range aj {
		ajk = append(ajk, int64(k))
	}
	sort.Slice(ajk, func(i, j int) bool { return ajk[i] < ajk[j] })
	for gc := 0; gc < 256; gc++ { // every uint8 category on a code point outside the table (fallback)
		emit(c20tInput{K: "join", R: 0x41, GC: gc})
	}
	for i := 0; i < n/8; i++ {
		u := ajk[r.Intn(len(ajk))]
		if r.Chance(25) {
			u = c20tRandomCP(r)
		}
		gc := r.Intn(32)
		if r.Chance(15) {
			gc = r.Intn(256)
		}
		emit(c20tInput{K: "join", R: u, GC: gc})
	}
	// table indices of indicTable / useTable: the ends of the index segment of every range clause and their neighbours,
	// the ends of the table, random indices (thorough: every index)
	for t, pl := range []*hbsrc.Paged{src.indic, src.use} {
		tlen := int64(len(hb.VerifC20IndicTable()))
		if t == 1 {
			tlen = int64(len(hb.VerifC20USETable()))
		}
		seen := map[int64]bool{}
		add := func(i int64) {
			if !seen[i] && i >= -1 && i <= tlen {
				seen[i] = true
				emit(c20tInput{K: "idx", T: t, I: i})
			}
		}
		add(-1)
		add(0)
		add(tlen - 1)
		add(tlen)
		for _, c := range pl.Flat() {
			if c.Kind == 1 {
				for _, i := range []int64{c.Lo - c.Sub + c.Off - 1, c.Lo - c.Sub + c.Off, c.Hi - c.Sub + c.Off, c.Hi - c.Sub + c.Off + 1} {
					add(i)
				}
			}
		}
		if tier == "quick" {
			for k := 0; k < n/30; k++ {
				add(int64(r.Intn(int(tlen))))
			}
		} else {
			for i := int64(0); i < tlen; i++ {
				add(i)
			}
		}
	}
	// code points
	pool := c20tPoolOrdered(ajk)
	npool := len(pool)
	if tier == "quick" && n < npool {
		npool = n
		for _, x := range pool[:56] {
			emit(c20tInput{K: "cp", R: x})
		}
	}
	idx := append([]int(nil), r.Perm(len(pool))[:npool]...)
	sort.Ints(idx)
	for _, i := range idx {
		emit(c20tInput{K: "cp", R: pool[i]})
	}
	for i := 0; i < n/3; i++ {
		emit(c20tInput{K: "cp", R: c20tRandomCP(r)})
	}
}

// ---- run ----

func c20tRtab(t *unicode.RangeTable) string {
	if t == nil {
		return "None"
	}
	var es []string
	for _, r := range t.R16 {
		es = append(es, vh.Tuple(vh.Z(int64(r.Lo)), vh.Z(int64(r.Hi)), vh.Z(int64(r.Stride))))
	}
	for _, r := range t.R32 {
		es = append(es, vh.Tuple(vh.Z(int64(r.Lo)), vh.Z(int64(r.Hi)), vh.Z(int64(r.Stride))))
	}
	return vh.Some(vh.List(es))
}

func c20tRun(o *vh.Out, inAny any) {
	in := inAny.(c20tInput)
	const trivial = "(TJoin 65 0 0)"
	var term, key string
	class := in.K
	var panicked any
	sweepFail, goFail := "", ""
	func() {
		defer func() { panicked = recover() }()
		switch in.K {
		case "script":
			s, err := language.ParseScript(string(in.S))
			str := s.String()
			s2, err2 := language.ParseScript(str)
			term = vh.App("TScript", c20Bytes(in.S), c20ZB(int64(uint32(s)), err == nil), c20Bytes([]byte(str)), c20ZB(int64(uint32(s2)), err2 == nil))
			if err == nil {
				key = term
				class = "script:ok"
			}
			_, goFail = c20tCheckScript(in.S)
		case "cp":
			r := rune(int32(in.R))
			gc := hb.VerifC20GeneralCategory(r)
			jt := hb.VerifC20GetJoiningType(r, gc)
			ind := hb.VerifC20IndicGetCategories(r)
			use := hb.VerifC20GetUSECategory(r)
			mcc := hb.VerifC20ModifiedCombiningClass(r)
			ccc := ucd.LookupCombiningClass(r)
			ep := hb.VerifC20IsExtendedPictographic(r)
			sc := language.LookupScript(r)
			vo := ucd.LookupVerticalOrientation(sc).Orientation(r)
			term = vh.App("TCp", vh.Z(int64(r)), vh.Zi(int(gc)), vh.Zi(int(jt)), vh.Zi(int(ind)), vh.Zi(int(use)), vh.Zi(int(mcc)), vh.Zi(int(ccc)),
				vh.Bool(ep), vh.Z(int64(uint32(sc))), vh.Bool(vo))
			if gc != 2 {
				key = term
			}
			switch {
			case r < 0 || r > 0x10ffff:
				class = "cp:outside"
			case r < 0x10000:
				class = "cp:bmp"
			default:
				class = "cp:astral"
			}
			if _, ok := hb.VerifC20ArabicJoinings()[r]; ok {
				o.Count("cp:joining-entry")
			}
			if use != 0 {
				o.Count("cp:use-category")
			}
			if !vo {
				o.Count("cp:upright")
			}
			_, goFail = c20tCheckCP(r)
		case "vo":
			r := rune(int32(in.R))
			sv := ucd.LookupVerticalOrientation(language.Script(in.Sc))
			f := ucd.VerifC20VOFields(sv)
			term = vh.App("TVo", vh.Z(int64(in.Sc)), vh.Tuple(vh.Z(int64(uint32(f.Script))), vh.Bool(f.IsMainSideways), c20tRtab(f.Exceptions)),
				vh.Z(int64(r)), vh.Bool(sv.Orientation(r)))
			key = term
			if f.Exceptions != nil {
				class = "vo:exceptions"
			}
			if _, goFail = c20tCheckVO(language.Script(in.Sc)); goFail == "" {
				_, goFail = c20tCheckOrientation(language.Script(in.Sc), r)
			}
		case "join":
			u := rune(int32(in.R))
			jt := hb.VerifC20GetJoiningType(u, uint8(in.GC))
			term = vh.App("TJoin", vh.Z(int64(u)), vh.Zi(int(uint8(in.GC))), vh.Zi(int(jt)))
			key = term
		case "idx":
			pl := c20tSource().indic
			if in.T == 1 {
				pl = c20tSource().use
			}
			u, got := int64(-1), int64(-1)
			for _, c := range pl.Flat() {
				if c.Kind == 1 && c.Lo-c.Sub+c.Off <= in.I && in.I <= c.Hi-c.Sub+c.Off {
					u = in.I + c.Sub - c.Off
					break
				}
			}
			if u >= 0 {
				if in.T == 1 {
					got = int64(hb.VerifC20GetUSECategory(rune(u)))
				} else {
					got = int64(hb.VerifC20IndicGetCategories(rune(u)))
				}
				key = fmt.Sprintf("idx %d %d", in.T, in.I)
			}
			term = vh.App("TIdx", vh.Zi(in.T), vh.Z(in.I), vh.Z(u), vh.Z(got))
			class = fmt.Sprintf("idx:%d", in.T)
		case "sweep":
			term = trivial
			key = fmt.Sprintf("sweep %d", in.Lo)
			sweepFail = c20tSweep(in.Lo, in.Hi)
		default:
			panic("unknown case kind " + in.K)
		}
	}()
	if panicked != nil {
		idx := o.Add(in, trivial, "", "panic")
		o.Fail(idx, "panic", fmt.Sprintf("%s: panic: %v", in.K, panicked))
		return
	}
	idx := o.Add(in, term, key, class)
	if sweepFail != "" {
		o.Fail(idx, "sweep", sweepFail)
	}
	if goFail != "" {
		o.Fail(idx, "oracle", goFail)
	}
}

// ---- the tables expanded by a plain walk (compared with the lookups on every code point: c20_full.go) ----

type c20tExpected struct {
	gc         []int16 // class id per code point, -1 none, -3 in two classes
	ep         []int16
	indic, use []int32
	assigned   []bool // the code point has a script
}

var c20texp *c20tExpected

func c20tFlatten(pl *hbsrc.Paged, table []int64) []int32 {
	out := make([]int32, 0x110000)
	for i := range out {
		out[i] = -1
	}
	for _, c := range pl.Flat() { // first clause in source order wins, no page dispatch
		for u := c.Lo; u <= c.Hi && u < 0x110000; u++ {
			if u < 0 || out[u] != -1 {
				continue
			}
			if c.Kind == 0 {
				out[u] = int32(c.Off)
			} else if ix := u - c.Sub + c.Off; ix >= 0 && ix < int64(len(table)) {
				out[u] = int32(table[ix])
			} else {
				out[u] = -2 // index outside the table
			}
		}
	}
	for i := range out {
		if out[i] == -1 {
			out[i] = int32(pl.Default)
		}
	}
	return out
}

func c20tExpected_() *c20tExpected {
	if c20texp != nil {
		return c20texp
	}
	pos := func(i int, _ *unicode.RangeTable) int { return i }
	src := c20tSource()
	e := &c20tExpected{}
	e.gc = c20Expand(hb.VerifC20GeneralCategories(), pos)
	e.ep = c20Expand([]*unicode.RangeTable{ucd.Extended_Pictographic}, pos)
	it := hb.VerifC20IndicTable()
	itz := make([]int64, len(it))
	for i, x := range it {
		itz[i] = int64(x)
	}
	ut := hb.VerifC20USETable()
	utz := make([]int64, len(ut))
	for i, x := range ut {
		utz[i] = int64(x)
	}
	e.indic = c20tFlatten(src.indic, itz)
	e.use = c20tFlatten(src.use, utz)
	e.assigned = make([]bool, 0x110000)
	for _, rg := range language.ScriptRanges {
		for r := rg.Start; r <= rg.End && r < 0x110000; r++ {
			if r >= 0 && rg.Script != language.Unknown {
				e.assigned[r] = true
			}
		}
	}
	c20texp = e
	return e
}

// c20tSweep checks every code point of [lo, hi) (stored "sweep" inputs of earlier runs; the generator now scans all
// code points on every tier, see c20_full.go) and returns the first disagreement ("" if none).
func c20tSweep(lo, hi int64) string {
	for x := lo; x < hi && x < 0x110000; x++ {
		if _, msg := c20tCheckCP(rune(x)); msg != "" {
			return msg
		}
	}
	return ""
}
