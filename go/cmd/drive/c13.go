package main

// Drivers of property C13 "reusable objects never leak state":
//   c13face    font.Face extents cache (SetCoords/SetVariations/SetPpem interleaved with GlyphExtents)
//   c13shaper  shaping.HarfbuzzShaper (font LRU, plan cache of its Buffer) over several faces
//   c13reuse   history independence of shaping.Segmenter, shaping.LineWrapper, segmenter.Segmenter
// Every answer of the reused object is compared with a fresh object (oracle); the cache states exposed by the
// verif hooks are compared with the Coq models (correspondence).

import (
	"bytes"
	"encoding/json"
	"fmt"
	"math"
	"os"
	"os/exec"
	"reflect"
	"strings"
	"sync"

	"github.com/go-text/typesetting/di"
	"github.com/go-text/typesetting/font"
	ot "github.com/go-text/typesetting/font/opentype"
	"github.com/go-text/typesetting/font/opentype/tables"
	"github.com/go-text/typesetting/harfbuzz"
	"github.com/go-text/typesetting/language"
	"github.com/go-text/typesetting/segmenter"
	"github.com/go-text/typesetting/shaping"
	"golang.org/x/image/math/fixed"

	"verifharness/internal/vh"
)

// ---- fonts --------------------------------------------------------------------------------------

// real fonts of the typesetting-utils module (in the Go module cache), relative to the module root
var c13FontPaths = []string{
	"opentype/common/Commissioner-VF.ttf",                                                // 0: glyf+gvar, 4 axes, GSUB FeatureVariations
	"harfbuzz/harfbuzz_reference/text-rendering-tests/fonts/AdobeVFPrototype-Subset.otf", // 1: CFF2, 2 axes, GSUB FeatureVariations
	"opentype/common/SourceSans-VF.ttf",                                                  // 2: glyf+gvar, 1 axis
	"opentype/toys/Sbix1.ttf",                                                            // 3: sbix (extents depend on ppem)
	"opentype/common/NotoSansArabic.ttf",                                                 // 4: variable, Arabic
	"opentype/common/Roboto-BoldItalic.ttf",                                              // 5: static glyf
	"opentype/toys/CBLC1.ttf",                                                            // 6: colour bitmap strikes; glyphs 0 and 1 have no extents
}

type c13Font struct {
	font *font.Font
	axes []tables.VariationAxisRecord
	n    int      // number of glyphs (length of a fresh extents cache)
	noEx []uint32 // some glyph ids inside the cache for which the font has no extents
}

var (
	c13Once  sync.Once
	c13Root  string
	c13Fonts = map[int]*c13Font{}
)

func c13FontsRoot() string {
	c13Once.Do(func() {
		if r := os.Getenv("VERIF_FONTS"); r != "" {
			c13Root = r
			return
		}
		cmd := exec.Command("go", "list", "-m", "-f", "{{.Dir}}", "github.com/go-text/typesetting-utils")
		if repo := os.Getenv("VERIF_REPO"); repo != "" {
			cmd.Dir = repo
		}
		out, err := cmd.Output()
		if err != nil {
			fmt.Fprintln(os.Stderr, "c13: cannot locate the typesetting-utils module:", err)
			os.Exit(2)
		}
		c13Root = strings.TrimSpace(string(out))
	})
	return c13Root
}

func c13Font_(i int) *c13Font {
	if f, ok := c13Fonts[i]; ok {
		return f
	}
	b, err := os.ReadFile(c13FontsRoot() + "/" + c13FontPaths[i])
	if err != nil {
		fmt.Fprintln(os.Stderr, "c13:", err)
		os.Exit(2)
	}
	ld, err := ot.NewLoader(bytes.NewReader(b))
	if err != nil {
		fmt.Fprintln(os.Stderr, "c13:", c13FontPaths[i], err)
		os.Exit(2)
	}
	ft, err := font.NewFont(ld)
	if err != nil {
		fmt.Fprintln(os.Stderr, "c13:", c13FontPaths[i], err)
		os.Exit(2)
	}
	out := &c13Font{font: ft}
	if raw, err := ld.RawTable(ot.MustNewTag("fvar")); err == nil {
		fv, _, _ := tables.ParseFvar(raw)
		out.axes = fv.FvarRecords.Axis
	}
	probe := font.NewFace(ft)
	out.n, _, _ = probe.VerifExtentsCache()
	for g := 0; g < out.n && len(out.noEx) < 8; g++ {
		if _, ok := probe.GlyphExtents(font.GID(g)); !ok {
			out.noEx = append(out.noEx, uint32(g))
		}
	}
	c13Fonts[i] = out
	return out
}

type c13Var struct {
	Tag uint32  `json:"tag"`
	Val float32 `json:"val"`
}

func c13Variations(vs []c13Var) []font.Variation {
	if vs == nil {
		return nil
	}
	out := make([]font.Variation, len(vs))
	for i, v := range vs {
		out[i] = font.Variation{Tag: ot.Tag(v.Tag), Value: v.Val}
	}
	return out
}

// random variation settings for a font (possibly empty, possibly an unknown axis)
func c13GenVars(r *vh.Rand, f *c13Font) []c13Var {
	if r.Chance(12) {
		return nil
	}
	var out []c13Var
	for _, a := range f.axes {
		if !r.Chance(70) {
			continue
		}
		var v float32
		switch r.Intn(5) {
		case 0:
			v = a.Minimum
		case 1:
			v = a.Maximum
		case 2:
			v = a.Default
		default:
			v = a.Minimum + (a.Maximum-a.Minimum)*float32(r.Intn(9))/8
		}
		out = append(out, c13Var{Tag: uint32(a.Tag), Val: v})
	}
	if r.Chance(5) {
		out = append(out, c13Var{Tag: uint32(ot.MustNewTag("zzzz")), Val: 3})
	}
	return out
}

// ---- c13face ------------------------------------------------------------------------------------

type c13FaceOp struct {
	K      string   `json:"k"` // coords | vars | ppem | ext
	Coords []int16  `json:"coords,omitempty"`
	Vars   []c13Var `json:"vars,omitempty"`
	X      uint16   `json:"x,omitempty"`
	Y      uint16   `json:"y,omitempty"`
	G      uint32   `json:"g,omitempty"`
}
type c13FaceInput struct {
	Font int         `json:"font"`
	Ops  []c13FaceOp `json:"ops"`
}

func c13FaceGen(r *vh.Rand, tier string, n int, emit func(any)) {
	fontsFor := []int{0, 1, 2, 3, 6, 0, 1}
	for i := 0; i < n; i++ {
		fi := fontsFor[r.Intn(len(fontsFor))]
		f := c13Font_(fi)
		// a small pool of glyphs so that the same glyph is asked again under other settings
		pool := make([]uint32, r.Range(2, 5))
		for j := range pool {
			switch r.Intn(8) {
			case 0:
				pool[j] = uint32(f.n) // first id outside the cache
			case 1:
				pool[j] = uint32(f.n - 1)
			case 2:
				pool[j] = uint32(f.n + r.Intn(1000))
			case 3:
				if len(f.noEx) > 0 {
					pool[j] = f.noEx[r.Intn(len(f.noEx))]
				} else {
					pool[j] = uint32(r.Intn(f.n))
				}
			default:
				pool[j] = uint32(r.Intn(f.n))
			}
		}
		nops := r.Range(3, 14)
		if tier != "quick" && r.Chance(10) {
			nops = r.Range(15, 40)
		}
		in := c13FaceInput{Font: fi}
		for j := 0; j < nops; j++ {
			switch k := r.Intn(10); {
			case k < 6:
				in.Ops = append(in.Ops, c13FaceOp{K: "ext", G: pool[r.Intn(len(pool))]})
			case k < 7:
				var cs []int16
				if len(f.axes) > 0 && !r.Chance(15) {
					cs = make([]int16, len(f.axes))
					for a := range cs {
						switch r.Intn(4) {
						case 0:
							cs[a] = 0
						case 1:
							cs[a] = 1 << 14
						case 2:
							cs[a] = -(1 << 14)
						default:
							cs[a] = int16(r.Range(-(1 << 14), 1<<14))
						}
					}
				}
				kind := "coords"
				if r.Chance(40) { // the caller rewrites the slice it passed before, in place, and passes it again
					kind = "coordsip"
				}
				in.Ops = append(in.Ops, c13FaceOp{K: kind, Coords: cs})
			case k < 9:
				in.Ops = append(in.Ops, c13FaceOp{K: "vars", Vars: c13GenVars(r, f)})
			default:
				pp := []uint16{0, 8, 16, 20, 32, 64, 128, 300}
				in.Ops = append(in.Ops, c13FaceOp{K: "ppem", X: pp[r.Intn(len(pp))], Y: pp[r.Intn(len(pp))]})
			}
		}
		emit(in)
	}
}

func c13Ext(e font.GlyphExtents, ok bool) string {
	if !ok {
		return "None"
	}
	return vh.Some(vh.ZList([]int64{int64(math.Float32bits(e.XBearing)), int64(math.Float32bits(e.YBearing)),
		int64(math.Float32bits(e.Width)), int64(math.Float32bits(e.Height))}))
}

func c13FaceRun(o *vh.Out, inAny any) {
	in := inAny.(c13FaceInput)
	f := c13Font_(in.Font)
	var (
		ops, ans, fresh, valid []string
		panicked               any
		queries, changes       int
		differs                bool
	)
	func() {
		defer func() { panicked = recover() }()
		face := font.NewFace(f.font)
		coordIDs := map[string]int64{"[]": 0}
		intern := func(cs []tables.Coord) int64 {
			k := fmt.Sprint(cs)
			if id, ok := coordIDs[k]; ok {
				return id
			}
			id := int64(len(coordIDs))
			coordIDs[k] = id
			return id
		}
		var px, py uint16
		var lastCS []tables.Coord
		for _, op := range in.Ops {
			switch op.K {
			case "coords", "coordsip":
				var cs []tables.Coord
				if op.K == "coordsip" && lastCS != nil && len(lastCS) == len(op.Coords) {
					cs = lastCS // same backing array as the slice the face may still hold
					for i, c := range op.Coords {
						cs[i] = tables.Coord(c)
					}
				} else if op.Coords != nil {
					cs = make([]tables.Coord, len(op.Coords))
					for i, c := range op.Coords {
						cs[i] = tables.Coord(c)
					}
				}
				lastCS = cs
				face.SetCoords(cs)
				ops = append(ops, vh.App("FaceCache.SetCoords Z Z", vh.Z(intern(face.Coords()))))
				changes++
			case "vars":
				face.SetVariations(c13Variations(op.Vars))
				ops = append(ops, vh.App("FaceCache.SetVariations Z Z", vh.Z(intern(face.Coords()))))
				changes++
			case "ppem":
				face.SetPpem(op.X, op.Y)
				px, py = op.X, op.Y
				ops = append(ops, vh.App("FaceCache.SetPpem Z Z", vh.Z(int64(op.X)), vh.Z(int64(op.Y))))
				changes++
			case "ext":
				e, ok := face.GlyphExtents(font.GID(op.G))
				// oracle: a fresh face configured identically
				nf := font.NewFace(f.font)
				nf.SetCoords(append([]tables.Coord(nil), face.Coords()...))
				nf.SetPpem(px, py)
				fe, fok := nf.GlyphExtents(font.GID(op.G))
				ops = append(ops, vh.App("FaceCache.GlyphExtents Z Z", vh.Z(int64(op.G))))
				a, b := c13Ext(e, ok), c13Ext(fe, fok)
				ans = append(ans, a)
				fresh = append(fresh, b)
				if a != b {
					differs = true
				}
				queries++
			default:
				panic("c13face: unknown op " + op.K)
			}
			_, v, _ := face.VerifExtentsCache()
			vs := make([]int64, len(v))
			for i, g := range v {
				vs[i] = int64(g)
			}
			valid = append(valid, vh.ZList(vs))
		}
	}()
	coq := vh.App("mkCase", vh.Z(int64(f.n)), vh.List(ops), vh.List(ans), vh.List(fresh), vh.List(valid))
	key := ""
	if queries >= 2 && changes >= 1 {
		key = coq
	}
	idx := o.Add(in, coq, key, fmt.Sprintf("font=%d", in.Font), fmt.Sprintf("ops<=%d", bucket(len(in.Ops))))
	if differs {
		o.Count("reused!=fresh")
	}
	if panicked != nil {
		o.Fail(idx, "panic", fmt.Sprint(panicked))
	}
}

// ---- c13shaper ----------------------------------------------------------------------------------

type c13FaceDef struct {
	Font int       `json:"font"`
	Vars []c13Var  `json:"vars,omitempty"`
	Ppem [2]uint16 `json:"ppem,omitempty"`
}
type c13Feat struct {
	Tag uint32 `json:"tag"`
	Val uint32 `json:"val"`
}
type c13ShOp struct {
	K     string    `json:"k"` // shape | size | vars | ppem
	Face  int       `json:"face,omitempty"`
	Text  string    `json:"text,omitempty"`
	Size  int       `json:"size,omitempty"`
	Dir   int       `json:"dir,omitempty"` // 0 LTR 1 RTL 2 TTB 3 TTB sideways
	Lang  string    `json:"lang,omitempty"`
	Feats []c13Feat `json:"feats,omitempty"`
	N     int       `json:"n,omitempty"`
	Vars  []c13Var  `json:"vars,omitempty"`
	Ppem  [2]uint16 `json:"ppem,omitempty"`
}
type c13ShaperInput struct {
	Faces []c13FaceDef `json:"faces"`
	Ops   []c13ShOp    `json:"ops"`
}

var c13Texts = []string{"$aW", "fi", "Hello, world", "a$b $", "1/2 ffi", "$", "AV To", "مرحبا", "سلام $", "x"}
var c13FeatTags = []string{"liga", "kern", "smcp", "frac", "rvrn", "ss01"}

func c13ShaperGen(r *vh.Rand, tier string, n int, emit func(any)) {
	// the witness of the repaired defect first: two faces of one variable font, cache enabled
	wght := uint32(ot.MustNewTag("wght"))
	emit(c13ShaperInput{
		Faces: []c13FaceDef{{Font: 0, Vars: []c13Var{{wght, 100}}}, {Font: 0, Vars: []c13Var{{wght, 900}}}},
		Ops: []c13ShOp{{K: "size", N: 4}, {K: "shape", Face: 0, Text: "$aW", Size: 16}, {K: "shape", Face: 1, Text: "$aW", Size: 16},
			{K: "shape", Face: 0, Text: "$aW", Size: 16}},
	})
	// plan cache vs SetVariations on one face
	emit(c13ShaperInput{
		Faces: []c13FaceDef{{Font: 0, Vars: []c13Var{{wght, 100}}}},
		Ops: []c13ShOp{{K: "shape", Face: 0, Text: "$aW", Size: 16}, {K: "vars", Face: 0, Vars: []c13Var{{wght, 900}}},
			{K: "shape", Face: 0, Text: "$aW", Size: 16}, {K: "vars", Face: 0, Vars: []c13Var{{wght, 100}}}, {K: "shape", Face: 0, Text: "$aW", Size: 16}},
	})
	// shrinking the cache
	emit(c13ShaperInput{
		Faces: []c13FaceDef{{Font: 0}, {Font: 0}, {Font: 5}, {Font: 1}, {Font: 2}},
		Ops: []c13ShOp{{K: "size", N: 4}, {K: "shape", Face: 0, Text: "a", Size: 10}, {K: "shape", Face: 1, Text: "a", Size: 10},
			{K: "shape", Face: 2, Text: "a", Size: 10}, {K: "shape", Face: 3, Text: "a", Size: 10}, {K: "size", N: 1},
			{K: "shape", Face: 0, Text: "a", Size: 10}, {K: "shape", Face: 4, Text: "a", Size: 10}, {K: "size", N: -1}, {K: "shape", Face: 4, Text: "a", Size: 10}},
	})
	fontPool := []int{0, 0, 1, 2, 4, 5}
	for i := 0; i < n; i++ {
		var in c13ShaperInput
		nf := r.Range(2, 5)
		base := fontPool[r.Intn(len(fontPool))]
		for j := 0; j < nf; j++ {
			fi := base // several faces of ONE font are the interesting case
			if r.Chance(40) {
				fi = fontPool[r.Intn(len(fontPool))]
			}
			fd := c13FaceDef{Font: fi, Vars: c13GenVars(r, c13Font_(fi))}
			if r.Chance(15) {
				fd.Ppem = [2]uint16{uint16(r.Range(8, 40)), uint16(r.Range(8, 40))}
			}
			in.Faces = append(in.Faces, fd)
		}
		nops := r.Range(3, 12)
		if tier != "quick" && r.Chance(10) {
			nops = r.Range(12, 30)
		}
		for j := 0; j < nops; j++ {
			switch k := r.Intn(20); {
			case k < 13:
				op := c13ShOp{K: "shape", Face: r.Intn(nf), Text: c13Texts[r.Intn(len(c13Texts))], Size: []int{16, 16, 12, 72, 1, 0}[r.Intn(6)]}
				if r.Chance(25) {
					op.Dir = r.Intn(4)
				}
				if r.Chance(25) {
					op.Lang = []string{"en", "tr", "ar", "fr"}[r.Intn(4)]
				}
				for q := r.Intn(3); q > 0 && r.Chance(60); q-- {
					op.Feats = append(op.Feats, c13Feat{Tag: uint32(ot.MustNewTag(c13FeatTags[r.Intn(len(c13FeatTags))])), Val: uint32(r.Intn(2))})
				}
				in.Ops = append(in.Ops, op)
			case k < 16:
				in.Ops = append(in.Ops, c13ShOp{K: "size", N: []int{0, 1, 2, 3, 8, -1, 1, 2}[r.Intn(8)]})
			case k < 19:
				f := r.Intn(nf)
				in.Ops = append(in.Ops, c13ShOp{K: "vars", Face: f, Vars: c13GenVars(r, c13Font_(in.Faces[f].Font))})
			default:
				in.Ops = append(in.Ops, c13ShOp{K: "ppem", Face: r.Intn(nf), Ppem: [2]uint16{uint16(r.Range(0, 40)), uint16(r.Range(0, 40))}})
			}
		}
		emit(in)
	}
}

func c13Dir(d int) di.Direction {
	switch d {
	case 1:
		return di.DirectionRTL
	case 2:
		return di.DirectionTTB
	case 3:
		dir := di.DirectionTTB
		dir.SetSideways(true)
		return dir
	}
	return di.DirectionLTR
}

func c13Script(text []rune) language.Script {
	for _, r := range text {
		if s := language.LookupScript(r); s != language.Common && s != language.Inherited && s != language.Unknown {
			return s
		}
	}
	return language.Latin
}

func c13CloneFace(f *font.Face) *font.Face {
	nf := font.NewFace(f.Font)
	nf.SetCoords(append([]tables.Coord(nil), f.Coords()...))
	nf.SetPpem(f.Ppem())
	return nf
}

func c13CopyOutput(o shaping.Output) shaping.Output {
	c := o
	c.Glyphs = append([]shaping.Glyph(nil), o.Glyphs...)
	c.Face = nil
	return c
}

func c13SameOutput(a, b shaping.Output) bool {
	a.Face, b.Face = nil, nil
	if len(a.Glyphs) == 0 && len(b.Glyphs) == 0 {
		a.Glyphs, b.Glyphs = nil, nil
	}
	return reflect.DeepEqual(a, b)
}

func c13FeatCoq(tag, val uint32, start, end int) string {
	return vh.Tuple(vh.Z(int64(tag)), vh.Z(int64(val)), vh.Z(int64(start)), vh.Z(int64(end)))
}

func c13ShaperRun(o *vh.Out, inAny any) {
	in := inAny.(c13ShaperInput)
	var (
		ops, obs         []string
		fontOf           []int64
		panicked         any
		shapes, sameFont int
		leak, stale      bool
		sawHit, sawEvict bool
	)
	func() {
		defer func() { panicked = recover() }()
		faces := make([]*font.Face, len(in.Faces))
		faceID := map[*font.Face]int64{}
		for i, fd := range in.Faces {
			f := c13Font_(fd.Font)
			faces[i] = font.NewFace(f.font)
			if fd.Vars != nil {
				faces[i].SetVariations(c13Variations(fd.Vars))
			}
			if fd.Ppem != [2]uint16{} {
				faces[i].SetPpem(fd.Ppem[0], fd.Ppem[1])
			}
			faceID[faces[i]] = int64(i)
			fontOf = append(fontOf, int64(fd.Font))
			for j := 0; j < i; j++ {
				if in.Faces[j].Font == fd.Font {
					sameFont++
					break
				}
			}
		}
		key := func(f *font.Face) (int64, int64) {
			return int64(f.Font.GSUB.FindVariationIndex(f.Coords())), int64(f.Font.GPOS.FindVariationIndex(f.Coords()))
		}
		// the model starts with every face's coordinates unknown (-1,-1): tell it the initial ones
		for i, f := range faces {
			k0, k1 := key(f)
			ops = append(ops, vh.App("SCoords", vh.Z(int64(i)), vh.Z(k0), vh.Z(k1)))
			obs = append(obs, "(mkObs [] 0 0 [] true)")
		}
		propsIDs := map[harfbuzz.SegmentProperties]int64{}
		propsID := func(p harfbuzz.SegmentProperties) int64 {
			if id, ok := propsIDs[p]; ok {
				return id
			}
			id := int64(len(propsIDs))
			propsIDs[p] = id
			return id
		}
		var shaper shaping.HarfbuzzShaper
		type kept struct{ live, copy shaping.Output }
		var earlier []kept
		prevLen := 0
		for _, op := range in.Ops {
			plans := "[]"
			ok := true
			switch op.K {
			case "shape":
				face := faces[op.Face%len(faces)]
				text := []rune(op.Text)
				input := shaping.Input{Text: text, RunStart: 0, RunEnd: len(text), Direction: c13Dir(op.Dir), Face: face,
					Size: fixed.I(op.Size), Script: c13Script(text)}
				if op.Lang != "" {
					input.Language = language.NewLanguage(op.Lang)
				}
				var feats []string
				for _, ft := range op.Feats {
					input.FontFeatures = append(input.FontFeatures, shaping.FontFeature{Tag: ot.Tag(ft.Tag), Value: ft.Val})
					feats = append(feats, c13FeatCoq(ft.Tag, ft.Val, harfbuzz.FeatureGlobalStart, harfbuzz.FeatureGlobalEnd))
				}
				dir := input.Direction
				if dir.IsSideways() {
					dir = dir.SwitchAxis()
				}
				props := harfbuzz.SegmentProperties{Direction: dir.Harfbuzz(), Script: input.Script, Language: input.Language}
				keysBefore, _, _, _ := shaper.VerifFontCache()
				for _, k := range keysBefore {
					if k == face {
						sawHit = true
					}
				}
				out := shaper.Shape(input)
				// oracle: a fresh shaper on a fresh face configured identically
				finput := input
				finput.Face = c13CloneFace(face)
				var fresh shaping.HarfbuzzShaper
				fout := fresh.Shape(finput)
				if !c13SameOutput(out, fout) {
					ok = false
					leak = true
				}
				earlier = append(earlier, kept{out, c13CopyOutput(out)})
				ops = append(ops, vh.App("SShape", vh.Z(faceID[face]), vh.Z(propsID(props)), vh.List(feats)))
				var ps []string
				for _, p := range shaper.VerifBuffer().VerifPlanCache(face) {
					var fs []string
					for _, ft := range p.Features {
						fs = append(fs, c13FeatCoq(uint32(ft.Tag), ft.Value, ft.Start, ft.End))
					}
					ps = append(ps, vh.Tuple(vh.Z(propsID(p.Props)), vh.List(fs), vh.Tuple(vh.Z(int64(p.Key[0])), vh.Z(int64(p.Key[1])))))
				}
				plans = vh.List(ps)
				shapes++
			case "size":
				shaper.SetFontCacheSize(op.N)
				ops = append(ops, vh.App("SSize", vh.Z(int64(op.N))))
			case "vars", "ppem":
				face := faces[op.Face%len(faces)]
				if op.K == "vars" {
					face.SetVariations(c13Variations(op.Vars))
				} else {
					face.SetPpem(op.Ppem[0], op.Ppem[1])
				}
				k0, k1 := key(face)
				ops = append(ops, vh.App("SCoords", vh.Z(faceID[face]), vh.Z(k0), vh.Z(k1)))
			default:
				panic("c13shaper: unknown op " + op.K)
			}
			// results returned earlier stay unchanged
			for _, e := range earlier {
				if !c13SameOutput(e.live, e.copy) {
					ok = false
					stale = true
				}
			}
			keys, ffaces, mapLen, maxSize := shaper.VerifFontCache()
			var es []string
			for i := range keys {
				kid, ok1 := faceID[keys[i]]
				vid, ok2 := faceID[ffaces[i]]
				if !ok1 {
					kid = -1
				}
				if !ok2 {
					vid = -2
				}
				es = append(es, vh.Tuple(vh.Z(kid), vh.Z(vid)))
			}
			if op.K == "shape" && len(keys) < prevLen {
				sawEvict = true
			}
			prevLen = len(keys)
			obs = append(obs, vh.App("mkObs", vh.List(es), vh.Z(int64(mapLen)), vh.Z(int64(maxSize)), plans, vh.Bool(ok)))
		}
	}()
	coq := vh.App("mkCase", vh.ZList(fontOf), vh.List(ops), vh.List(obs))
	key := ""
	if shapes >= 2 {
		key = coq
	}
	idx := o.Add(in, coq, key, fmt.Sprintf("faces=%d", len(in.Faces)), fmt.Sprintf("ops<=%d", bucket(len(in.Ops))))
	if sameFont > 0 {
		o.Count("two_faces_of_one_font")
	}
	if sawHit {
		o.Count("cache_hit")
	}
	if sawEvict {
		o.Count("shrinking_eviction")
	}
	if leak {
		o.Count("reused!=fresh")
	}
	if stale {
		o.Count("earlier_result_changed")
	}
	if panicked != nil {
		o.Fail(idx, "panic", fmt.Sprint(panicked))
	}
}

// ---- c13reuse -----------------------------------------------------------------------------------

type c13Call struct {
	Text   string `json:"text"`
	Width  int    `json:"width,omitempty"`
	Widths []int  `json:"widths,omitempty"` // Prepare/WrapNextLine: one width per call; the paragraph is abandoned when exhausted
	Trunc  int    `json:"trunc,omitempty"`
	Policy int    `json:"policy,omitempty"`
	Cont   bool   `json:"cont,omitempty"`
	NoTrim bool   `json:"notrim,omitempty"`
	Dir    int    `json:"dir,omitempty"`
	Para   bool   `json:"para,omitempty"` // kind 2 history: WrapParagraph instead of Prepare
	Tr     bool   `json:"tr,omitempty"`   // with a truncator
}
type c13ReuseInput struct {
	Kind    int       `json:"kind"` // 0 shaping.Segmenter 1 WrapParagraph 2 Prepare/WrapNextLine 3 segmenter.Segmenter
	History []c13Call `json:"history,omitempty"`
	Call    c13Call   `json:"call"`
}

var c13ReuseTexts = []string{
	"aa bb cc", "the quick brown fox jumps over the lazy dog", "hello\nworld again", "a", "", "supercalifragilistic word",
	"مرحبا بالعالم hello", "abc (def) [ghi]", "שלום עולם abc 123", "x  y   z ", "one two three four five six seven",
	"日本語のテキスト text", "a-b-c-d-e-f-g", "trailing space ", "( العربية [mixed) ]",
	// paired delimiters left open by one text and closed by another (shaping.Segmenter's delimiter stack)
	"عربي (abc [", "שלום «(", "abc {[(", ") كلمة ] x", ")» 12 }", "] ) }",
}

func c13ReuseGen(r *vh.Rand, tier string, n int, emit func(any)) {
	call := func() c13Call {
		c := c13Call{Text: c13ReuseTexts[r.Intn(len(c13ReuseTexts))], Width: []int{10, 35, 60, 100, 200, 1000, 0}[r.Intn(7)]}
		if r.Chance(30) {
			c.Trunc = r.Range(1, 3)
			c.Tr = r.Bool()
			c.Cont = r.Chance(30)
		}
		c.Policy = r.Intn(3)
		c.NoTrim = r.Chance(15)
		if r.Chance(20) {
			c.Dir = 1
		}
		for k := r.Range(1, 6); k > 0; k-- {
			c.Widths = append(c.Widths, []int{10, 35, 60, 100, 200, 1000}[r.Intn(6)])
		}
		c.Para = r.Chance(30)
		return c
	}
	for i := 0; i < n; i++ {
		in := c13ReuseInput{Kind: i % 4, Call: call()}
		for k := r.Range(0, 4); k > 0; k-- {
			in.History = append(in.History, call())
		}
		emit(in)
	}
}

type c13Fontmap []*font.Face

func (fm c13Fontmap) ResolveFace(r rune) *font.Face {
	for _, f := range fm {
		if _, ok := f.NominalGlyph(r); ok {
			return f
		}
	}
	return fm[0]
}

type c13Enc struct {
	out   []int64
	faces map[*font.Face]int64
}

func (e *c13Enc) i(xs ...int) {
	for _, x := range xs {
		e.out = append(e.out, int64(x))
	}
}
func (e *c13Enc) str(s string) {
	e.i(len(s))
	for _, b := range []byte(s) {
		e.i(int(b))
	}
}
func (e *c13Enc) face(f *font.Face) {
	id, ok := e.faces[f]
	if !ok {
		id = -1
		if f == nil {
			id = -2
		}
	}
	e.out = append(e.out, id)
}
func (e *c13Enc) inputs(ins []shaping.Input) {
	e.i(-100, len(ins))
	for _, in := range ins {
		e.i(in.RunStart, in.RunEnd, int(in.Direction), int(in.Script), int(in.Size), len(in.Text), len(in.FontFeatures))
		e.str(string(in.Language))
		e.face(in.Face)
	}
}
func (e *c13Enc) output(o shaping.Output) {
	e.i(-300, o.Runes.Offset, o.Runes.Count, int(o.Advance), int(o.Direction), int(o.VisualIndex), int(o.Size), len(o.Glyphs),
		int(o.LineBounds.Ascent), int(o.LineBounds.Descent), int(o.LineBounds.Gap),
		int(o.GlyphBounds.Ascent), int(o.GlyphBounds.Descent), int(o.GlyphBounds.Gap))
	e.face(o.Face)
	for _, g := range o.Glyphs {
		e.i(int(g.GlyphID), g.ClusterIndex, int(g.XAdvance), int(g.YAdvance), int(g.XOffset), int(g.YOffset),
			int(g.Width), int(g.Height), int(g.XBearing), int(g.YBearing), g.RuneCount, g.GlyphCount, int(g.Mask))
	}
}
func (e *c13Enc) line(l shaping.Line) {
	e.i(-200, len(l))
	for _, o := range l {
		e.output(o)
	}
}

// shaped runs of a paragraph, freshly allocated for every call (wrapping edits its input glyphs: C02)
func c13ShapeRuns(text []rune, dir di.Direction, fm c13Fontmap) []shaping.Output {
	var seg shaping.Segmenter
	var sh shaping.HarfbuzzShaper
	ins := seg.Split(shaping.Input{Text: text, RunEnd: len(text), Direction: dir, Size: fixed.I(10), Language: language.NewLanguage("en")}, fm)
	outs := make([]shaping.Output, len(ins))
	for i, in := range ins {
		if in.Face == nil { // Split of an empty text yields a run without face (C07's business)
			in.Face = fm[0]
		}
		outs[i] = sh.Shape(in)
	}
	return outs
}

func c13Config(c c13Call, fm c13Fontmap) shaping.WrapConfig {
	cfg := shaping.WrapConfig{Direction: c13Dir(c.Dir), TruncateAfterLines: c.Trunc, TextContinues: c.Cont,
		BreakPolicy: shaping.LineBreakPolicy(c.Policy % 3), DisableTrailingWhitespaceTrim: c.NoTrim}
	if c.Tr {
		t := []rune("…")
		var sh shaping.HarfbuzzShaper
		cfg.Truncator = sh.Shape(shaping.Input{Text: t, RunEnd: 1, Direction: cfg.Direction, Face: fm[0], Size: fixed.I(10), Script: language.Latin})
	}
	return cfg
}

func c13ReuseRun(o *vh.Out, inAny any) {
	in := inAny.(c13ReuseInput)
	fm := c13Fontmap{font.NewFace(c13Font_(5).font), font.NewFace(c13Font_(4).font)}
	faces := map[*font.Face]int64{fm[0]: 0, fm[1]: 1}
	var (
		reused, fresh, before, after []int64
		panicked                     any
	)
	enc := func() *c13Enc { return &c13Enc{faces: faces} }
	func() {
		defer func() { panicked = recover() }()
		switch in.Kind {
		case 0: // shaping.Segmenter.Split
			split := func(seg *shaping.Segmenter, c c13Call) []shaping.Input {
				t := []rune(c.Text)
				return seg.Split(shaping.Input{Text: t, RunEnd: len(t), Direction: c13Dir(c.Dir), Size: fixed.I(10),
					Language: language.NewLanguage("en")}, fm)
			}
			var seg, other shaping.Segmenter
			for _, h := range in.History {
				res := split(&seg, h)
				e := enc()
				e.inputs(res)
				before = append(before, e.out...)
				split(&other, in.Call) // work on another object must not touch the result
				e = enc()
				e.inputs(res)
				after = append(after, e.out...)
			}
			res := split(&seg, in.Call)
			e := enc()
			e.inputs(res)
			reused = e.out
			var fr shaping.Segmenter
			e = enc()
			e.inputs(split(&fr, in.Call))
			fresh = e.out
			e = enc()
			e.inputs(res) // still the same after a fresh segmenter worked
			before = append(before, reused...)
			after = append(after, e.out...)
		case 1: // LineWrapper.WrapParagraph
			// the reused wrapper is also given one reused RunIterator OBJECT whose content is replaced for
			// every paragraph (a user-supplied iterator), so that state keyed on the iterator's identity shows
			reusedIter := &c13Iter{}
			var reusedWrapper *shaping.LineWrapper
			wrap := func(w *shaping.LineWrapper, c c13Call) ([]shaping.Line, int) {
				t := []rune(c.Text)
				cfg := c13Config(c, fm)
				runs := c13ShapeRuns(t, cfg.Direction, fm)
				var it shaping.RunIterator = shaping.NewSliceIterator(runs)
				if w == reusedWrapper {
					reusedIter.runs, reusedIter.idx, reusedIter.saved = runs, 0, 0
					it = reusedIter
				}
				return w.WrapParagraph(cfg, c.Width, t, it)
			}
			encode := func(ls []shaping.Line, tr int) []int64 {
				e := enc()
				e.i(tr, len(ls))
				for _, l := range ls {
					e.line(l)
				}
				return e.out
			}
			var w, other shaping.LineWrapper
			reusedWrapper = &w
			for _, h := range in.History {
				ls, tr := wrap(&w, h)
				before = append(before, encode(ls, tr)...)
				wrap(&other, in.Call)
				after = append(after, encode(ls, tr)...)
			}
			ls, tr := wrap(&w, in.Call)
			reused = encode(ls, tr)
			var fr shaping.LineWrapper
			fresh = encode(wrap(&fr, in.Call))
			before = append(before, reused...)
			after = append(after, encode(ls, tr)...)
		case 2: // Prepare / WrapNextLine, abandoned paragraphs in the history
			type got struct {
				l shaping.WrappedLine
				d bool
			}
			iterate := func(w *shaping.LineWrapper, c c13Call, all bool) (res []got, copies [][]int64) {
				t := []rune(c.Text)
				cfg := c13Config(c, fm)
				runs := c13ShapeRuns(t, cfg.Direction, fm)
				if c.Para && !all {
					w.WrapParagraph(cfg, c.Width, t, shaping.NewSliceIterator(runs))
					return nil, nil
				}
				w.Prepare(cfg, t, shaping.NewSliceIterator(runs))
				for k := 0; ; k++ {
					width := c.Width
					if len(c.Widths) > 0 {
						width = c.Widths[k%len(c.Widths)]
					}
					if !all && k >= len(c.Widths) {
						break // abandon the paragraph here
					}
					l, done := w.WrapNextLine(width)
					res = append(res, got{l, done})
					e := enc()
					e.i(l.Truncated, l.NextLine, boolInt(done))
					e.line(l.Line)
					copies = append(copies, e.out)
					if done || k > 200 {
						break
					}
				}
				return res, copies
			}
			reread := func(res []got) (out []int64) {
				for _, g := range res {
					e := enc()
					e.i(g.l.Truncated, g.l.NextLine, boolInt(g.d))
					e.line(g.l.Line)
					out = append(out, e.out...)
				}
				return out
			}
			flat := func(cs [][]int64) (out []int64) {
				for _, c := range cs {
					out = append(out, c...)
				}
				return out
			}
			var w shaping.LineWrapper
			for _, h := range in.History {
				res, copies := iterate(&w, h, false)
				// lines of one paragraph stay valid until the next Prepare / WrapParagraph
				before = append(before, flat(copies)...)
				after = append(after, reread(res)...)
			}
			res, copies := iterate(&w, in.Call, true)
			reused = flat(copies)
			before = append(before, reused...)
			after = append(after, reread(res)...)
			var fr shaping.LineWrapper
			_, fcopies := iterate(&fr, in.Call, true)
			fresh = flat(fcopies)
		case 3: // segmenter.Segmenter
			run := func(seg *segmenter.Segmenter, text string, partial bool) []int64 {
				e := enc()
				seg.Init([]rune(text))
				li := seg.LineIterator()
				for li.Next() {
					l := li.Line()
					e.i(-1, l.Offset, len(l.Text), boolInt(l.IsMandatoryBreak))
					if partial {
						return e.out
					}
				}
				gi := seg.GraphemeIterator()
				for gi.Next() {
					g := gi.Grapheme()
					e.i(-2, g.Offset, len(g.Text))
				}
				wi := seg.WordIterator()
				for wi.Next() {
					w := wi.Word()
					e.i(-3, w.Offset, len(w.Text))
				}
				return e.out
			}
			var seg segmenter.Segmenter
			for i, h := range in.History {
				run(&seg, h.Text, i%2 == 0)
			}
			// iterators created before and used after another iterator of the same Init stay coherent
			reused = run(&seg, in.Call.Text, false)
			var fr segmenter.Segmenter
			fresh = run(&fr, in.Call.Text, false)
		default:
			panic("c13reuse: unknown kind")
		}
	}()
	coq := vh.App("mkCase", vh.Z(int64(in.Kind)), vh.ZList(reused), vh.ZList(fresh), vh.ZList(before), vh.ZList(after))
	key := ""
	if len(in.History) > 0 && len(reused) > 0 {
		key = coq
	}
	idx := o.Add(in, coq, key, fmt.Sprintf("kind=%d", in.Kind), fmt.Sprintf("history=%d", len(in.History)))
	if panicked != nil {
		o.Fail(idx, "panic", fmt.Sprint(panicked))
	}
}

func boolInt(b bool) int {
	if b {
		return 1
	}
	return 0
}

// ---- registration -------------------------------------------------------------------------------

func init() {
	drivers["c13face"] = &driver{
		header: "From TV Require Import Check.C13Face.",
		shard:  100,
		n: func(tier string) int {
			if tier == "quick" {
				return 600
			}
			return 6000
		},
		decode: func(raw json.RawMessage) (any, error) {
			var in c13FaceInput
			err := json.Unmarshal(raw, &in)
			return in, err
		},
		gen: c13FaceGen,
		run: c13FaceRun,
	}
	drivers["c13shaper"] = &driver{
		header: "From TV Require Import Check.C13Shaper.",
		shard:  100,
		n: func(tier string) int {
			if tier == "quick" {
				return 500
			}
			return 5000
		},
		decode: func(raw json.RawMessage) (any, error) {
			var in c13ShaperInput
			err := json.Unmarshal(raw, &in)
			return in, err
		},
		gen: c13ShaperGen,
		run: c13ShaperRun,
	}
	drivers["c13reuse"] = &driver{
		header: "From TV Require Import Check.C13Reuse.",
		shard:  100,
		n: func(tier string) int {
			if tier == "quick" {
				return 600
			}
			return 6000
		},
		decode: func(raw json.RawMessage) (any, error) {
			var in c13ReuseInput
			err := json.Unmarshal(raw, &in)
			return in, err
		},
		gen: c13ReuseGen,
		run: c13ReuseRun,
	}
}

// c13Iter is a user-side RunIterator over a slice, reusable across paragraphs.
type c13Iter struct {
	runs       []shaping.Output
	idx, saved int
}

func (it *c13Iter) Next() (int, shaping.Output, bool) {
	if it.idx >= len(it.runs) {
		return it.idx, shaping.Output{}, false
	}
	i := it.idx
	it.idx++
	return i, it.runs[i], true
}

func (it *c13Iter) Peek() (int, shaping.Output, bool) {
	if it.idx >= len(it.runs) {
		return it.idx, shaping.Output{}, false
	}
	return it.idx, it.runs[it.idx], true
}
func (it *c13Iter) Save()    { it.saved = it.idx }
func (it *c13Iter) Restore() { it.idx = it.saved }
