package main

import (
	"encoding/json"
	"fmt"

	hb "github.com/go-text/typesetting/harfbuzz"

	"verifharness/internal/vh"
)

// ---- c18mkmk: the real GPOS mark-to-mark attachment (applyGPOSMarkToMark, applyGPOSMarks) run through the real lookup
// loop on a real Buffer with synthetic MarkMarkPos subtables, against Model/MarkMark.v; plus the cut statement of C18
// on the implementation's own outputs. ----------

type k18Input struct {
	Items []e18Item `json:"items"`
	Rec   bool      `json:"rec"`
	Level int       `json:"level"`
	Dir   int       `json:"dir"`
	Marks []e18Mark `json:"marks"`
}

func init() {
	drivers["c18mkmk"] = &driver{
		header: "From TV Require Import Check.C18MkMk.",
		shard:  60,
		n: func(tier string) int {
			if tier == "quick" {
				return 500
			}
			return 5000
		},
		decode: func(raw json.RawMessage) (any, error) {
			var in k18Input
			err := json.Unmarshal(raw, &in)
			return in, err
		},
		gen: k18Gen,
		run: k18Run,
	}
}

func k18Apply(in k18Input, items []e18Item) ([]e18Item, bool, string) {
	vb := e18ToVerif(e18Input{Level: in.Level, Rec: in.Rec, Dir: in.Dir}, items)
	ls := make([]hb.VerifMarkBase, len(in.Marks))
	for i, m := range in.Marks {
		l := hb.VerifMarkBase{Flag: m.Flag, Mask: m.Mask, Classes: m.Classes, Marks: m.Marks}
		for _, b := range m.Bases {
			l.Bases = append(l.Bases, hb.VerifBase{Glyph: b.G, Anchors: b.A})
		}
		ls[i] = l
	}
	out, msg := hb.VerifApplyMarkMark(vb, ls)
	return e18FromVerif(out), out.HasGlyphFlags, msg
}

func k18CoqLookups(in k18Input) string {
	ls := make([]string, len(in.Marks))
	for i, m := range in.Marks {
		mk := make([]string, len(m.Marks))
		for j, x := range m.Marks {
			mk[j] = vh.Tuple(vh.Zi(x[0]), vh.Zi(x[1]), vh.Zi(x[2]), vh.Zi(x[3]))
		}
		bs := make([]string, len(m.Bases))
		for j, b := range m.Bases {
			as := make([]string, m.Classes)
			for c := 0; c < m.Classes; c++ {
				if c < len(b.A) && b.A[c][0] != 0 {
					as[c] = vh.Tuple("true", vh.Zi(b.A[c][1]), vh.Zi(b.A[c][2]))
				} else {
					as[c] = vh.Tuple("false", vh.Zi(0), vh.Zi(0))
				}
			}
			bs[j] = vh.Tuple(vh.Zi(b.G), vh.List(as))
		}
		ls[i] = vh.App("mkMB", vh.Zi(int(m.Flag)), vh.Zi(int(m.Mask>>3)), vh.List(mk), vh.List(bs))
	}
	return vh.List(ls)
}

func k18Run(o *vh.Out, inAny any) {
	in := inAny.(k18Input)
	out, orec, msg := k18Apply(in, in.Items)
	panicked := msg != ""
	var cuts []string
	ncut := 0
	if !panicked {
		for k := 1; k < len(in.Items); k++ {
			c, ok := e18CutCluster(in.Items, k)
			if !ok {
				continue
			}
			present, flagged := false, false
			for _, g := range out {
				if g.C == c {
					present = true
					if g.M&1 != 0 {
						flagged = true
					}
				}
			}
			if !present || flagged {
				continue
			}
			a, _, m1 := k18Apply(in, in.Items[:k])
			b, _, m2 := k18Apply(in, in.Items[k:])
			if m1 != "" || m2 != "" {
				panicked, msg = true, "piece: "+m1+m2
				break
			}
			cuts = append(cuts, vh.Tuple(fmt.Sprintf("%d%%nat", k), e18CoqItems(a), e18CoqItems(b)))
			ncut++
		}
	}
	coq := vh.App("mkMC", k18CoqLookups(in), e18CoqItems(in.Items), vh.Bool(in.Rec), e18CoqItems(out), vh.Bool(orec), vh.Bool(panicked), vh.List(cuts))
	changed := "same"
	if fmt.Sprint(out) != fmt.Sprint(in.Items) {
		changed = "changed"
	}
	key := ""
	if changed == "changed" || ncut > 0 {
		key = fmt.Sprintf("mkmk/%v/%v", in.Items, out)
	}
	classes := []string{"mkmk/" + changed}
	if ncut > 0 {
		classes = append(classes, "mkmk/cut")
	}
	if changed == "changed" {
		classes = append(classes, "nontrivial")
	}
	idx := o.Add(in, coq, key, classes...)
	if panicked {
		o.Fail(idx, "panic", msg)
	}
}

// mark-heavy glyph sequences: a letter, then runs of marks with default ignorables in between; ligature ids and
// component numbers mostly consistent inside a run
func k18Items(r *vh.Rand, maxN int) ([]e18Item, bool) {
	n := r.Range(2, maxN)
	items := make([]e18Item, n)
	c := r.Range(0, 3)
	rec := false
	lig := uint8(0)
	for i := range items {
		if i > 0 && r.Chance(45) {
			c += r.Range(1, 2)
		}
		kind := 1
		switch x := r.Intn(100); {
		case x < 18:
			kind = 0
		case x < 80:
			kind = 1
		default:
			kind = 2
		}
		if i == 0 && r.Chance(70) {
			kind = 0
		}
		g, u, q := e18Glyph(r, kind)
		if kind == 0 && r.Chance(40) {
			lig = uint8(r.Range(0, 3))<<5 | uint8(r.Range(0, 3))
			if r.Chance(30) {
				lig |= 16 // isLigBase
			}
		}
		m := uint32(8)
		switch r.Intn(12) {
		case 0:
			m = 0
		case 1:
			m = 16
		case 2:
			m = 24
		}
		if r.Chance(8) {
			m |= uint32(r.Range(1, 3))
			rec = true
		}
		it := e18Item{C: c, M: m, G: g, U: u, Q: q}
		if kind == 1 {
			it.L = lig
			if r.Chance(20) {
				it.L = uint8(r.Range(0, 3))<<5 | uint8(r.Range(0, 3))
			}
		} else if kind == 0 {
			it.L = lig
		}
		if r.Chance(10) {
			it.Q |= 16
		}
		for j := 0; j < 4; j++ {
			if r.Chance(50) {
				it.P[j] = int32(r.Range(-300, 1200))
			}
		}
		items[i] = it
	}
	if r.Chance(20) {
		for i, j := 0, len(items)-1; i < j; i, j = i+1, j-1 {
			items[i], items[j] = items[j], items[i]
		}
	}
	return items, rec
}

func k18Gen(r *vh.Rand, tier string, n int, emit func(any)) {
	maxN := 6
	if tier != "quick" {
		maxN = 8
	}
	for i := 0; i < n; i++ {
		var in k18Input
		in.Items, in.Rec = k18Items(r, maxN)
		_, marks, all := e18Gids(in.Items)
		in.Level = r.Intn(2)
		in.Dir = 4
		pick := func() int {
			if len(marks) > 0 && r.Chance(92) {
				return marks[r.Intn(len(marks))]
			}
			return r.Range(20, 24)
		}
		nl := r.Range(1, 3)
		for j := 0; j < nl; j++ {
			m := e18Mark{Classes: r.Range(1, 3), Mask: []uint32{8, 8, 8, 8, 16, 24, 0}[r.Intn(7)], Flag: []uint16{0, 0, 0, 0, 0, 0, 4, 2, 8}[r.Intn(9)]}
			nm := r.Range(2, 6)
			for k := 0; k < nm; k++ {
				m.Marks = append(m.Marks, [4]int{pick(), r.Intn(m.Classes), r.Range(-200, 200), r.Range(-200, 600)})
			}
			nb := r.Range(2, 6)
			for k := 0; k < nb; k++ {
				b := e18Base{G: pick()}
				if r.Chance(10) {
					b.G = e18Pick(r, all, 1, 7)
				}
				for c := 0; c < m.Classes; c++ {
					if r.Chance(85) {
						b.A = append(b.A, [3]int{1, r.Range(0, 700), r.Range(-100, 900)})
					} else {
						b.A = append(b.A, [3]int{0, 0, 0})
					}
				}
				m.Bases = append(m.Bases, b)
			}
			in.Marks = append(in.Marks, m)
		}
		emit(in)
	}
}
