package main

import (
	"encoding/json"
	"fmt"
	"math"
	"strings"

	fs "github.com/go-text/typesetting/fontscan"

	"verifharness/internal/vh"
)

// ---------------------------------------------------------------------------------------------
// c16codec: the wire format of the system font index (payload level through the model, file level
// through real gzip).

type c16CodecInput struct {
	Mode  int           `json:"mode"` // 0 roundtrip, 1 payload bytes derived from Index, 2 file bytes derived from Index
	Index fs.VerifIndex `json:"index"`
	Op    string        `json:"op,omitempty"`  // prefix | xor | raw | append
	Pos   int           `json:"pos,omitempty"` // prefix length / corrupted position
	Val   byte          `json:"val,omitempty"` // xor mask
	Raw   []byte        `json:"raw,omitempty"` // op raw: the bytes; op append: the trailing bytes
}

func init() {
	drivers["c16codec"] = &driver{
		header: "From TV Require Import Check.C16.",
		shard:  60,
		n: func(tier string) int {
			if tier == "quick" {
				return 500
			}
			return 6000
		},
		decode: func(raw json.RawMessage) (any, error) {
			var in c16CodecInput
			err := json.Unmarshal(raw, &in)
			return in, err
		},
		gen: c16CodecGen,
		run: c16CodecRun,
	}
}

func c16ErrCode(err error) int64 {
	if err == nil {
		return 0
	}
	s := err.Error()
	for _, p := range []struct {
		sub  string
		code int64
	}{
		{"invalid string (EOF)", 1}, {"invalid string length (EOF)", 2}, {"invalid Aspect (EOF)", 3},
		{"invalid Location (EOF)", 4}, {"invalid rune set (EOF)", 5}, {"invalid rune set size (EOF)", 6},
		{"invalid Script set (EOF)", 7}, {"invalid Script set size (EOF)", 8}, {"invalid lang set (EOF)", 9},
		{"invalid fileFootprints (EOF)", 10}, {"corrupted aspect", 15}, {"different index version format", 11},
		{"invalid index format:", 12}, {"invalid compressed index file", 20},
	} {
		if strings.Contains(s, p.sub) {
			return p.code
		}
	}
	if strings.HasPrefix(s, "invalid index: ") && (strings.HasSuffix(s, "EOF")) {
		return 13
	}
	return 99
}

func c16U64(x uint64) string { return fmt.Sprintf("%d", x) }

func c16Footprint(fp fs.VerifIndexFootprint) string {
	pages := make([]string, len(fp.Runes))
	for i, p := range fp.Runes {
		ws := make([]int64, 8)
		for j, w := range p.Set {
			ws[j] = int64(w)
		}
		pages[i] = vh.App("mkPage", vh.Z(int64(p.Ref)), vh.ZList(ws))
	}
	scripts := make([]int64, len(fp.Scripts))
	for i, s := range fp.Scripts {
		scripts[i] = int64(s)
	}
	langs := make([]string, 8)
	for i, l := range fp.Langs {
		langs[i] = c16U64(l)
	}
	return vh.App("mkFP", vh.BytesLit([]byte(fp.File)), vh.Z(int64(fp.Index)), vh.Z(int64(fp.Instance)),
		vh.BytesLit([]byte(fp.Family)), vh.List(pages), vh.ZList(scripts), vh.List(langs),
		vh.App("mkAspect", vh.Z(int64(fp.Style)), vh.Z(int64(fp.Weight)), vh.Z(int64(fp.Stretch))))
}

func c16Index(ix fs.VerifIndex) string {
	files := make([]string, len(ix))
	for i, f := range ix {
		fps := make([]string, len(f.Footprints))
		for j, fp := range f.Footprints {
			fps[j] = c16Footprint(fp)
		}
		files[i] = vh.App("mkFF", vh.BytesLit([]byte(f.Path)), vh.Z(f.ModTime), vh.List(fps))
	}
	return vh.List(files)
}

// ---- generators ------------------------------------------------------------------------------

func c16String(r *vh.Rand) string {
	switch r.Intn(10) {
	case 0:
		return ""
	case 1:
		return string(r.Bytes(r.Range(1, 40))) // arbitrary bytes, not UTF-8
	case 2:
		return "/usr/share/fonts/" + strings.Repeat("d/", r.Range(0, 8)) + "F.ttf"
	default:
		b := make([]byte, r.Range(1, 14))
		for i := range b {
			b[i] = byte(r.Range(0x20, 0x7e))
		}
		return string(b)
	}
}

var c16Weights = []float32{100, 400, 700, 950, 1, 65535, 1.5}
var c16Stretches = []float32{0.5, 0.625, 0.75, 0.875, 1, 1.125, 1.25, 1.5, 2}
var c16BadFloats = []float32{0, -1, float32(math.NaN()), float32(math.Inf(-1)), float32(math.Copysign(0, -1)), 1e-40, 0.4999, 2.0001, 65535.5, float32(math.Inf(1)), 3.4e38}

func c16Footgen(r *vh.Rand, valid bool) fs.VerifIndexFootprint {
	fp := fs.VerifIndexFootprint{
		File: c16String(r), Index: uint16(r.Intn(4)), Instance: uint16(r.Intn(3)), Family: c16String(r),
		Style:  uint8(r.Range(1, 2)),
		Weight: math.Float32bits(c16Weights[r.Intn(len(c16Weights))]), Stretch: math.Float32bits(c16Stretches[r.Intn(len(c16Stretches))]),
	}
	if r.Chance(10) {
		fp.Index, fp.Instance = uint16(r.Intn(65536)), uint16(r.Intn(65536))
	}
	if r.Chance(20) {
		fp.Weight = uint32(r.Range(0x3f800000, 0x477fff00))
		fp.Stretch = uint32(r.Range(0x3f000000, 0x40000000))
	}
	if !valid {
		switch r.Intn(4) {
		case 0:
			fp.Style = uint8([]int{0, 3, 255, 128}[r.Intn(4)])
		case 1:
			fp.Weight = math.Float32bits(c16BadFloats[r.Intn(len(c16BadFloats))])
		case 2:
			fp.Stretch = math.Float32bits(c16BadFloats[r.Intn(len(c16BadFloats))])
		default:
			fp.Weight = uint32(r.Range(0x7f800001, 0xffffffff)) // NaN and negative patterns
		}
	}
	np := r.Intn(4)
	if r.Chance(5) {
		np = r.Range(4, 12)
	}
	for i := 0; i < np; i++ {
		var p fs.VerifIndexPage
		p.Ref = uint16(r.Intn(65536))
		for j := range p.Set {
			switch r.Intn(3) {
			case 0:
				p.Set[j] = r.Uint32()
			case 1:
				p.Set[j] = 0xffffffff
			}
		}
		fp.Runes = append(fp.Runes, p)
	}
	ns := r.Intn(5)
	for i := 0; i < ns; i++ {
		fp.Scripts = append(fp.Scripts, r.Uint32())
	}
	for i := range fp.Langs {
		switch r.Intn(3) {
		case 0:
			fp.Langs[i] = r.Uint64()
		case 1:
			fp.Langs[i] = math.MaxUint64
		}
	}
	return fp
}

func c16IndexGen(r *vh.Rand, maxFiles, maxFps int, valid bool) fs.VerifIndex {
	ix := fs.VerifIndex{}
	nf := r.Range(0, maxFiles)
	for i := 0; i < nf; i++ {
		f := fs.VerifFile{Path: c16String(r)}
		switch r.Intn(6) {
		case 0:
			f.ModTime = math.MinInt64
		case 1:
			f.ModTime = math.MaxInt64
		case 2:
			f.ModTime = -int64(r.Intn(1 << 30))
		case 3:
			f.ModTime = 0
		default:
			f.ModTime = 1700000000000000000 + int64(r.Intn(1<<40))
		}
		k := r.Range(0, maxFps)
		for j := 0; j < k; j++ {
			f.Footprints = append(f.Footprints, c16Footgen(r, valid || r.Chance(60)))
		}
		ix = append(ix, f)
	}
	return ix
}

// a small well-formed index whose payload is a few hundred bytes
func c16SmallIndex(r *vh.Rand, variant int) fs.VerifIndex {
	fp := func(file, family string, pages, scripts int) fs.VerifIndexFootprint {
		f := fs.VerifIndexFootprint{File: file, Family: family, Style: 1, Weight: math.Float32bits(400), Stretch: math.Float32bits(1)}
		for i := 0; i < pages; i++ {
			f.Runes = append(f.Runes, fs.VerifIndexPage{Ref: uint16(i * 3), Set: [8]uint32{r.Uint32(), 0, 0xffffffff, 1, 2, 3, 4, 5}})
		}
		for i := 0; i < scripts; i++ {
			f.Scripts = append(f.Scripts, uint32(0x4c61746e+i))
		}
		f.Langs[0], f.Langs[7] = 3, 1<<63
		return f
	}
	switch variant {
	case 0:
		return fs.VerifIndex{}
	case 1:
		return fs.VerifIndex{{Path: "/f/a.txt", ModTime: 17}}
	case 2:
		return fs.VerifIndex{{Path: "/f/a.ttf", ModTime: 1700000000123456789, Footprints: []fs.VerifIndexFootprint{fp("/f/a.ttf", "arial", 1, 1)}}}
	case 3:
		return fs.VerifIndex{
			{Path: "/f/a.ttf", ModTime: 5, Footprints: []fs.VerifIndexFootprint{fp("/f/a.ttf", "arial", 0, 0)}},
			{Path: "/f/n.md", ModTime: -3},
			{Path: "/f/c.ttc", ModTime: 7, Footprints: []fs.VerifIndexFootprint{fp("/f/c.ttc", "", 1, 2), fp("/f/c.ttc", "mono", 0, 1)}},
		}
	default:
		return fs.VerifIndex{{Path: "", ModTime: 0, Footprints: []fs.VerifIndexFootprint{fp("", "", 0, 0)}}, {Path: "", ModTime: 0}}
	}
}

func c16CodecGen(r *vh.Rand, tier string, n int, emit func(any)) {
	thorough := tier == "thorough"
	// --- boundary indexes
	for v := 0; v <= 4; v++ {
		emit(c16CodecInput{Mode: 0, Index: c16SmallIndex(r, v)})
	}
	one := func(mut func(fp *fs.VerifIndexFootprint, f *fs.VerifFile)) fs.VerifIndex {
		ix := c16SmallIndex(r, 2)
		mut(&ix[0].Footprints[0], &ix[0])
		return ix
	}
	for _, ns := range []int{254, 255, 256, 257, 300, 511, 512} { // script count: one byte on the wire
		emit(c16CodecInput{Mode: 0, Index: one(func(fp *fs.VerifIndexFootprint, _ *fs.VerifFile) {
			fp.Scripts = nil
			for i := 0; i < ns; i++ {
				fp.Scripts = append(fp.Scripts, uint32(i+1))
			}
		})})
	}
	for _, np := range []int{255, 256, 300} { // page count: uint16 on the wire
		emit(c16CodecInput{Mode: 0, Index: one(func(fp *fs.VerifIndexFootprint, _ *fs.VerifFile) {
			fp.Runes = nil
			for i := 0; i < np; i++ {
				fp.Runes = append(fp.Runes, fs.VerifIndexPage{Ref: uint16(i), Set: [8]uint32{uint32(i), 0, 0, 0, 0, 0, 0, 0xffffffff}})
			}
		})})
	}
	// 32767/32768 and 65535: the signed and unsigned 16-bit boundaries of the length prefix (also in quick)
	strLens := []int{255, 256, 257, 1000, 32768, 65535}
	if thorough {
		strLens = append(strLens, 65534, 65535, 65536, 65537, 70000)
	}
	for _, sl := range strLens {
		s := strings.Repeat("x", sl-1) + "y"
		emit(c16CodecInput{Mode: 0, Index: one(func(fp *fs.VerifIndexFootprint, _ *fs.VerifFile) { fp.Family = s })})
		if sl >= 65000 {
			emit(c16CodecInput{Mode: 0, Index: one(func(fp *fs.VerifIndexFootprint, f *fs.VerifFile) { f.Path = s })})
			emit(c16CodecInput{Mode: 0, Index: one(func(fp *fs.VerifIndexFootprint, f *fs.VerifFile) { fp.File = s })})
		}
	}
	for _, st := range []uint8{0, 1, 2, 3, 4, 127, 128, 255} { // style byte
		emit(c16CodecInput{Mode: 0, Index: one(func(fp *fs.VerifIndexFootprint, _ *fs.VerifFile) { fp.Style = st })})
	}
	for _, w := range []uint32{0x3effffff, 0x3f000000, 0x3f7fffff, 0x3f800000, 0x40000000, 0x40000001, 0x477fff00, 0x477fff01, 0, 1, 0x7f7fffff, 0x7f800000, 0x7f800001, 0x7fc00000, 0x80000000, 0x80000001, 0xbf800000, 0xff800000, 0xffffffff} {
		emit(c16CodecInput{Mode: 0, Index: one(func(fp *fs.VerifIndexFootprint, _ *fs.VerifFile) { fp.Weight = w })})
		emit(c16CodecInput{Mode: 0, Index: one(func(fp *fs.VerifIndexFootprint, _ *fs.VerifFile) { fp.Stretch = w })})
	}
	for _, mt := range []int64{math.MinInt64, -1, 0, 1, math.MaxInt64} {
		emit(c16CodecInput{Mode: 0, Index: one(func(_ *fs.VerifIndexFootprint, f *fs.VerifFile) { f.ModTime = mt })})
	}
	// --- every prefix of several small indexes, payload and file level
	variants := []int{0, 1, 2}
	if thorough {
		variants = []int{0, 1, 2, 3, 4}
	}
	for _, v := range variants {
		ix := c16SmallIndex(r, v)
		payload, _ := fs.VerifSerializePayload(ix)
		for k := 0; k <= len(payload); k++ {
			emit(c16CodecInput{Mode: 1, Index: ix, Op: "prefix", Pos: k})
		}
		file, _ := fs.VerifSerializeFile(ix)
		for k := 0; k <= len(file); k++ {
			emit(c16CodecInput{Mode: 2, Index: ix, Op: "prefix", Pos: k})
		}
	}
	// --- every single-byte corruption of small indexes
	masks := []byte{0x01, 0x80, 0xff}
	if thorough {
		masks = nil
		for m := 1; m < 256; m++ {
			masks = append(masks, byte(m))
		}
	}
	cvars := []int{2}
	if thorough {
		cvars = []int{2, 1, 4}
	}
	for _, v := range cvars {
		ix := c16SmallIndex(r, v)
		payload, _ := fs.VerifSerializePayload(ix)
		few := []byte{0x01, 0x02, 0x04, 0x08, 0x10, 0x20, 0x40, 0x80, 0xff, 0x7f, 0x03, 0xfe}
		for k := 0; k < len(payload); k++ {
			ms := masks
			// thorough: all 255 masks on the index without footprint, and on the header, entry size, path,
			// modification time and aspect bytes of the one-footprint index; a dozen masks elsewhere
			if thorough && !(v == 1 || (v == 2 && (k < 28 || k >= len(payload)-9))) {
				ms = few
			}
			for _, m := range ms {
				emit(c16CodecInput{Mode: 1, Index: ix, Op: "xor", Pos: k, Val: m})
			}
		}
		file, _ := fs.VerifSerializeFile(ix)
		fmasks := []byte{0x01, 0xff}
		if thorough {
			fmasks = []byte{0x01, 0x02, 0x10, 0x80, 0xff}
		}
		for k := 0; k < len(file); k++ {
			for _, m := range fmasks {
				emit(c16CodecInput{Mode: 2, Index: ix, Op: "xor", Pos: k, Val: m})
			}
		}
	}
	// a single-entry index whose entry is shortened by d bytes with its announced size adjusted: the inner
	// deserializers (strings, aspect, rune set, script and lang sets) face every truncation of their own data
	for _, v := range []int{2} {
		ix := c16SmallIndex(r, v)
		payload, _ := fs.VerifSerializePayload(ix)
		if len(ix) == 1 && len(payload) > 10 {
			maxd := len(payload) - 10
			if !thorough && maxd > 120 {
				maxd = 120
			}
			for d := 1; d <= maxd; d++ {
				emit(c16CodecInput{Mode: 1, Index: ix, Op: "cutentry", Pos: d})
			}
		}
	}
	if !thorough { // corruptions of a two-file index at the positions of the structural fields
		ix := c16SmallIndex(r, 3)
		payload, _ := fs.VerifSerializePayload(ix)
		for k := 0; k < len(payload); k++ {
			if k < 24 || r.Chance(25) {
				emit(c16CodecInput{Mode: 1, Index: ix, Op: "xor", Pos: k, Val: byte(r.Range(1, 255))})
			}
		}
	}
	// --- random indexes, random corruptions, raw bytes
	for i := 0; i < n; i++ {
		switch c := r.Intn(10); {
		case c < 5:
			emit(c16CodecInput{Mode: 0, Index: c16IndexGen(r, 3, 3, r.Chance(85))})
		case c < 7:
			ix := c16IndexGen(r, 3, 2, true)
			payload, _ := fs.VerifSerializePayload(ix)
			emit(c16CodecInput{Mode: 1, Index: ix, Op: "xor", Pos: r.Intn(len(payload)), Val: byte(r.Range(1, 255))})
		case c < 8:
			ix := c16IndexGen(r, 3, 2, true)
			payload, _ := fs.VerifSerializePayload(ix)
			emit(c16CodecInput{Mode: 1, Index: ix, Op: "prefix", Pos: r.Intn(len(payload) + 1)})
		case c < 9:
			raw := r.Bytes(r.Range(0, 200))
			if r.Chance(80) && len(raw) >= 6 { // plausible header: version 6, small count
				raw[0], raw[1], raw[2], raw[3], raw[4], raw[5] = 0, 6, 0, 0, 0, byte(r.Intn(3))
				if len(raw) >= 10 {
					raw[6], raw[7], raw[8], raw[9] = 0, 0, 0, byte(r.Intn(len(raw)))
				}
			}
			emit(c16CodecInput{Mode: 1, Op: "raw", Raw: raw})
		default:
			emit(c16CodecInput{Mode: 1, Index: c16IndexGen(r, 2, 2, true), Op: "append", Raw: r.Bytes(r.Range(1, 20))})
		}
	}
}

func c16Derive(base []byte, in c16CodecInput) (out []byte, expect int64) {
	switch in.Op {
	case "cutentry": // drop the last Pos bytes of the (single) entry and announce the shorter size
		d := in.Pos
		if len(base) < 10+d {
			return append([]byte(nil), base...), 0
		}
		out = append([]byte(nil), base[:len(base)-d]...)
		size := uint32(out[6])<<24 | uint32(out[7])<<16 | uint32(out[8])<<8 | uint32(out[9])
		size -= uint32(d)
		out[6], out[7], out[8], out[9] = byte(size>>24), byte(size>>16), byte(size>>8), byte(size)
		return out, 0
	case "prefix":
		k := in.Pos
		if k > len(base) {
			k = len(base)
		}
		if k < len(base) {
			expect = 1
		}
		return append([]byte{}, base[:k]...), expect
	case "xor":
		out = append([]byte{}, base...)
		if len(out) > 0 {
			out[in.Pos%len(out)] ^= in.Val
		}
		return out, 0
	case "raw":
		return append([]byte{}, in.Raw...), 0
	case "append":
		return append(append([]byte{}, base...), in.Raw...), 0
	}
	return append([]byte{}, base...), 0
}

func c16CodecRun(o *vh.Out, inAny any) {
	in := inAny.(c16CodecInput)
	if in.Index == nil {
		in.Index = fs.VerifIndex{}
	}
	var (
		bytesIn  []byte
		expect   int64
		dec      fs.VerifIndex
		err      error
		panicked any
	)
	decode := fs.VerifDeserializePayload
	switch in.Mode {
	case 0:
		bytesIn, err = fs.VerifSerializePayload(in.Index)
		if err != nil {
			panic(err)
		}
	case 1:
		base, _ := fs.VerifSerializePayload(in.Index)
		bytesIn, expect = c16Derive(base, in)
	default:
		base, _ := fs.VerifSerializeFile(in.Index)
		bytesIn, expect = c16Derive(base, in)
		if expect == 1 {
			expect = 2
		}
		decode = fs.VerifDeserializeFile
	}
	func() {
		defer func() { panicked = recover() }()
		dec, err = decode(bytesIn)
	}()
	status := c16ErrCode(err)
	if panicked != nil {
		status = -1
	}
	payloadTerm := "[]"
	if in.Mode != 2 {
		payloadTerm = vh.BytesLit(bytesIn)
	}
	decTerm := "[]"
	if status == 0 {
		decTerm = c16Index(dec)
	}
	coq := vh.App("mkCase", vh.Zi(in.Mode), c16Index(in.Index), payloadTerm, vh.Z(expect), vh.Z(status), decTerm)
	class := fmt.Sprintf("mode=%d op=%s", in.Mode, in.Op)
	idx := o.Add(in, coq, coq, class, fmt.Sprintf("status=%d", status), fmt.Sprintf("bytes=%d", bucket(len(bytesIn))))
	if panicked != nil {
		o.Fail(idx, "panic", fmt.Sprint("deserializeIndex: ", panicked))
		return
	}
	// an accepted index must be usable: load it into a FontMap and run a query through the match functions
	if status == 0 {
		fams := map[string]bool{"": true}
		for _, f := range dec {
			for _, fp := range f.Footprints {
				fams[fp.Family] = true
			}
		}
		for fam := range fams {
			for _, style := range []uint8{1, 2} {
				if p := fs.VerifQuery(dec, fam, style); p != "" {
					o.Fail(idx, "panic", fmt.Sprintf("query on the accepted index (family %q): %s", fam, p))
					return
				}
			}
		}
		o.Count("accepted")
	}
	// mode 0: the file level (real gzip, through a real file for the small cases) agrees with the payload level
	if in.Mode == 0 {
		file, err := fs.VerifSerializeFile(in.Index)
		if err != nil {
			o.Fail(idx, "file", "serializeTo failed: "+err.Error())
			return
		}
		dec2, err2 := fs.VerifDeserializeFile(file)
		if c16ErrCode(err2) != status || (status == 0 && c16Index(dec2) != c16Index(dec)) {
			o.Fail(idx, "file", "file-level decode differs from payload-level decode")
		}
	}
}
