package main

// Driver c09kern (property C09): the kerning pair look-ups of 'kern' / 'kerx' formats 0, 2, 3, 6 and the CFF FDSelect
// look-ups (formats 0, 3) run on generated tables and glyph ids; the Coq model (Model/KernFd.v) is evaluated on the same
// inputs by Check/C09kern.v. A panic is status 3 (oracle failure); a look-up which does not return within the
// watchdog is reported directly as "hang".

import (
	"encoding/json"
	"fmt"
	"time"

	"github.com/go-text/typesetting/font"
	"github.com/go-text/typesetting/font/cff"
	"github.com/go-text/typesetting/font/opentype/tables"

	"verifharness/internal/vh"
)

type c09kInput struct {
	Kind  string     `json:"kind"` // kern0, kern2, kern3, kern6, fd0, fd3
	Class string     `json:"class"`
	Recs  [][3]int   `json:"recs,omitempty"`  // kern0: left, right, value (int16)
	Pairs [][2]int64 `json:"pairs,omitempty"` // glyph id pairs
	// kern2 / kern6: class tables (format -1: null; 0: values for every glyph; 6: (glyph, value) pairs; 8: first + values)
	LFmt   int      `json:"lfmt"`
	RFmt   int      `json:"rfmt"`
	LFirst int      `json:"lfirst,omitempty"`
	RFirst int      `json:"rfirst,omitempty"`
	LVals  []uint16 `json:"lvals,omitempty"`
	RVals  []uint16 `json:"rvals,omitempty"`
	Start  int      `json:"start,omitempty"`
	Data   []byte   `json:"data,omitempty"`
	// kern3 (int16 values), kern6
	Kernings   []int  `json:"kernings,omitempty"`
	GlyphCount int    `json:"glyph_count,omitempty"`
	ValueCount int    `json:"value_count,omitempty"`
	LeftCount  int    `json:"left_count,omitempty"`
	RightCount int    `json:"right_count,omitempty"`
	Left       []byte `json:"left,omitempty"`
	Right      []byte `json:"right,omitempty"`
	Index      []byte `json:"index,omitempty"`
	// FDSelect
	Fds      []byte   `json:"fds,omitempty"`
	Ranges   [][2]int `json:"ranges,omitempty"` // first, fd
	Sentinel int      `json:"sentinel,omitempty"`
	Gids     []int64  `json:"gids,omitempty"`
}

func init() {
	drivers["c09kern"] = &driver{
		header: "From TV Require Import Check.C09kern.",
		shard:  100,
		n: func(tier string) int {
			if tier == "quick" {
				return 900
			}
			return 20000
		},
		decode: func(raw json.RawMessage) (any, error) {
			var in c09kInput
			err := json.Unmarshal(raw, &in)
			return in, err
		},
		gen: c09kGen,
		run: c09kRun,
	}
}

func c09kGid(r *vh.Rand, small int) int64 {
	switch r.Intn(12) {
	case 0:
		return 0xFFFF
	case 1:
		return 0x10000 + int64(r.Intn(4))
	case 2:
		return 0xFFFFFFFF
	case 3:
		return int64(small)
	}
	return int64(r.Intn(small + 2))
}

func c09kLookup(r *vh.Rand, maxVal int) (format, first int, vals []uint16) {
	switch r.Intn(8) {
	case 0:
		return -1, 0, nil
	case 1, 2:
		format = 0
	case 3:
		format = 6
	default:
		format = 8
	}
	first = r.Intn(6)
	if r.Chance(10) {
		first = 0xFFFD + r.Intn(3)
	}
	n := r.Range(0, 8)
	if format == 6 {
		n = 2 * r.Range(0, 4)
	}
	for i := 0; i < n; i++ {
		v := r.Intn(maxVal + 3)
		if r.Chance(8) {
			v = []int{0xFFFF, 0x8000, maxVal + 1, maxVal + 2}[r.Intn(4)]
		}
		if format == 6 && i%2 == 0 {
			v = i/2*2 + r.Intn(2) // glyph ids, increasing
		}
		vals = append(vals, uint16(v))
	}
	return format, first, vals
}

func c09kGen(r *vh.Rand, tier string, n int, emit func(in any)) {
	for i := 0; i < n; i++ {
		var in c09kInput
		switch k := i % 6; k {
		case 0: // format 0
			in.Kind = "kern0"
			nr := r.Range(0, 8)
			sorted := r.Chance(75)
			in.Class = "unsorted"
			if sorted {
				in.Class = "sorted"
			}
			l, rr := 0, 0
			for j := 0; j < nr; j++ {
				if sorted {
					if r.Bool() {
						l += r.Intn(3)
						rr = r.Intn(4)
					} else {
						rr += 1 + r.Intn(3)
					}
				} else {
					l, rr = r.Intn(6), r.Intn(6)
				}
				if r.Chance(5) {
					l = 0xFFFF
				}
				in.Recs = append(in.Recs, [3]int{l & 0xFFFF, rr & 0xFFFF, r.Intn(400) - 200})
			}
			for _, rc := range in.Recs {
				in.Pairs = append(in.Pairs, [2]int64{int64(rc[0]), int64(rc[1])}, [2]int64{int64(rc[0]), int64(rc[1] + 1)})
			}
			for j := 0; j < 6; j++ {
				in.Pairs = append(in.Pairs, [2]int64{c09kGid(r, 5), c09kGid(r, 5)})
			}
			if nr > 0 { // a left glyph above 0xFFFF: the key wraps to the key of a record
				in.Pairs = append(in.Pairs, [2]int64{0x10000 + int64(in.Recs[0][0]), int64(in.Recs[0][1])})
			}
		case 1: // format 2
			in.Kind = "kern2"
			nd := r.Range(0, 24)
			in.Data = r.Bytes(nd)
			in.Start = r.Intn(nd + 2)
			if r.Chance(10) {
				in.Start = 0
			}
			in.LFmt, in.LFirst, in.LVals = c09kLookup(r, nd)
			in.RFmt, in.RFirst, in.RVals = c09kLookup(r, 8)
			in.Class = fmt.Sprintf("lookups=%d,%d", in.LFmt, in.RFmt)
			for j := 0; j < 14; j++ {
				in.Pairs = append(in.Pairs, [2]int64{c09kGid(r, 8), c09kGid(r, 8)})
			}
			in.Pairs = append(in.Pairs, [2]int64{int64(in.LFirst), int64(in.RFirst)}, [2]int64{int64(in.LFirst + len(in.LVals)), int64(in.RFirst)},
				[2]int64{int64(in.LFirst + len(in.LVals) - 1), int64(in.RFirst + len(in.RVals) - 1)})
		case 2, 3: // format 3
			in.Kind = "kern3"
			in.GlyphCount, in.ValueCount, in.LeftCount, in.RightCount = r.Range(0, 7), r.Range(0, 4), r.Range(0, 3), r.Range(0, 3)
			in.Class = "valid"
			for j := 0; j < in.ValueCount; j++ {
				in.Kernings = append(in.Kernings, r.Intn(400)-200)
			}
			class := func(count int) byte {
				if count == 0 {
					return byte(r.Intn(2))
				}
				return byte(r.Intn(count))
			}
			for j := 0; j < in.GlyphCount; j++ {
				in.Left = append(in.Left, class(in.LeftCount))
				in.Right = append(in.Right, class(in.RightCount))
			}
			for j := 0; j < in.LeftCount*in.RightCount; j++ {
				in.Index = append(in.Index, class(in.ValueCount))
			}
			// boundary values: a class or an index equal to its count, or above
			if r.Chance(55) {
				pick := func(b []byte, count int) bool {
					if len(b) == 0 {
						return false
					}
					b[r.Intn(len(b))] = byte(count + r.Intn(2)*r.Intn(3))
					return true
				}
				switch r.Intn(3) {
				case 0:
					if pick(in.Index, in.ValueCount) {
						in.Class = "index>=count"
					}
				case 1:
					if pick(in.Left, in.LeftCount) {
						in.Class = "left>=count"
					}
				default:
					if pick(in.Right, in.RightCount) {
						in.Class = "right>=count"
					}
				}
			}
			for a := 0; a <= in.GlyphCount; a++ {
				for b := 0; b <= in.GlyphCount; b++ {
					if a < 4 && b < 4 || r.Chance(30) {
						in.Pairs = append(in.Pairs, [2]int64{int64(a), int64(b)})
					}
				}
			}
			in.Pairs = append(in.Pairs, [2]int64{0xFFFF, 0}, [2]int64{0, 0x10000}, [2]int64{0xFFFFFFFF, 0xFFFFFFFF})
		case 4: // 'kerx' format 6
			in.Kind = "kern6"
			nk := r.Range(0, 10)
			for j := 0; j < nk; j++ {
				in.Kernings = append(in.Kernings, r.Intn(400)-200)
			}
			in.LFmt, in.LFirst, in.LVals = c09kLookup(r, nk)
			in.RFmt, in.RFirst, in.RVals = c09kLookup(r, nk)
			if in.LFmt < 0 {
				in.LFmt = 8
			}
			if in.RFmt < 0 {
				in.RFmt = 8
			}
			in.Class = "valid"
			for j := 0; j < 12; j++ {
				in.Pairs = append(in.Pairs, [2]int64{c09kGid(r, 8), c09kGid(r, 8)})
			}
		default: // FDSelect
			ng := r.Range(0, 12)
			if r.Bool() {
				in.Kind, in.Class = "fd0", "valid"
				for j := 0; j < ng; j++ {
					in.Fds = append(in.Fds, byte(r.Intn(4)))
				}
				if ng > 0 && r.Chance(10) {
					in.Fds[r.Intn(ng)] = 255
				}
			} else {
				in.Kind, in.Class = "fd3", "valid"
				nr := r.Range(0, 5)
				first := 0
				for j := 0; j < nr; j++ {
					in.Ranges = append(in.Ranges, [2]int{first, r.Intn(4)})
					first += 1 + r.Intn(4)
				}
				in.Sentinel = first
				switch r.Intn(6) {
				case 0:
					in.Class, in.Sentinel = "sentinel-small", r.Intn(first+1)
				case 1:
					in.Class = "unsorted"
					for j := range in.Ranges {
						in.Ranges[j][0] = r.Intn(12)
					}
				case 2:
					in.Class, in.Sentinel = "sentinel-zero", 0
				case 3:
					if nr > 0 {
						in.Class = "first-nonzero"
						in.Ranges[0][0] = 1 + r.Intn(3)
					}
				}
			}
			for g := 0; g <= ng+1; g++ {
				in.Gids = append(in.Gids, int64(g))
			}
			in.Gids = append(in.Gids, 0xFFFE, 0xFFFF, int64(in.Sentinel), int64(in.Sentinel+1))
		}
		emit(in)
	}
}

func c09kMakeLookup(format, first int, vals []uint16) (tables.AATLookup, string) {
	var zs []int64
	for _, v := range vals {
		zs = append(zs, int64(v))
	}
	switch format {
	case 0:
		return tables.AATLoopkup0{Values: vals}, vh.Some(vh.App("L0", vh.ZList(zs)))
	case 6:
		var pairs [][2]uint16
		var segs []string
		for i := 0; i+1 < len(vals); i += 2 {
			pairs = append(pairs, [2]uint16{vals[i], vals[i+1]})
			segs = append(segs, vh.App("mkRec6", vh.Zi(int(vals[i])), vh.Zi(int(vals[i+1]))))
		}
		return tables.VerifAATLookup6(pairs), vh.Some(vh.App("L6", vh.List(segs)))
	case 8:
		return tables.AATLoopkup8{AATLoopkup8Data: tables.AATLoopkup8Data{FirstGlyph: tables.GlyphID(first), Values: vals}},
			vh.Some(vh.App("L8", vh.Zi(first&0xffff), vh.ZList(zs)))
	}
	return nil, "None"
}

func c09kPairs(ps [][2]int64) string {
	var out []string
	for _, p := range ps {
		out = append(out, vh.Tuple(vh.Z(p[0]), vh.Z(p[1])))
	}
	return vh.List(out)
}

// c09kGuard runs f under recover() and a watchdog.
func c09kGuard(f func()) (panicked any, hung bool) {
	done := make(chan any, 1)
	go func() {
		defer func() { done <- recover() }()
		f()
	}()
	select {
	case p := <-done:
		return p, false
	case <-time.After(3 * time.Second):
		return nil, true
	}
}

func c09kRun(o *vh.Out, inAny any) {
	in := inAny.(c09kInput)
	var coq string
	status := int64(0)
	var res []int64
	var ores []string
	var hung bool
	finish := func(p any, h bool) {
		if p != nil {
			status, res, ores = 3, nil, nil
		}
		hung = h
	}
	switch in.Kind {
	case "kern0":
		var recs []tables.Kernx0Record
		var crecs []string
		for _, rc := range in.Recs {
			recs = append(recs, tables.Kernx0Record{Left: tables.GlyphID(rc[0]), Right: tables.GlyphID(rc[1]), Value: int16(rc[2])})
			crecs = append(crecs, vh.App("mkKrec", vh.Zi(rc[0]), vh.Zi(rc[1]), vh.Zi(int(int16(rc[2])))))
		}
		finish(c09kGuard(func() {
			for _, p := range in.Pairs {
				res = append(res, int64(font.Kern0(recs).KernPair(font.GID(p[0]), font.GID(p[1]))))
			}
		}))
		coq = vh.App("CKern0", vh.List(crecs), c09kPairs(in.Pairs), vh.Z(status), vh.ZList(res))
	case "kern2":
		l, cl := c09kMakeLookup(in.LFmt, in.LFirst, in.LVals)
		r, cr := c09kMakeLookup(in.RFmt, in.RFirst, in.RVals)
		k := font.Kern2{Left: l, Right: r, KerningStart: tables.Offset32(in.Start), KerningData: in.Data}
		finish(c09kGuard(func() {
			for _, p := range in.Pairs {
				res = append(res, int64(k.KernPair(font.GID(p[0]), font.GID(p[1]))))
			}
		}))
		coq = vh.App("CKern2", vh.App("mkKern2", cl, cr, vh.Zi(in.Start), vh.BytesLit(in.Data)), c09kPairs(in.Pairs), vh.Z(status), vh.ZList(res))
	case "kern3":
		// an Apple 'kern' table (version 1.0) with one format 3 subtable
		var st []byte
		st = append(st, byte(in.GlyphCount>>8), byte(in.GlyphCount), byte(in.ValueCount), byte(in.LeftCount), byte(in.RightCount), 0)
		var ks []int64
		for _, v := range in.Kernings {
			st = append(st, byte(uint16(v)>>8), byte(uint16(v)))
			ks = append(ks, int64(int16(v)))
		}
		st = append(st, in.Left...)
		st = append(st, in.Right...)
		st = append(st, in.Index...)
		L := 8 + len(st)
		tb := []byte{0, 1, 0, 0, 0, 0, 0, 1, byte(L >> 24), byte(L >> 16), byte(L >> 8), byte(L), 0, 3, 0, 0}
		tb = append(tb, st...)
		accepted := false
		finish(c09kGuard(func() {
			kern, _, err := tables.ParseKern(tb)
			if err != nil {
				return
			}
			kx := font.VerifKernxFromKern(kern)
			if len(kx) != 1 {
				return
			}
			sk, ok := kx[0].Data.(font.SimpleKerns)
			if !ok {
				return
			}
			accepted = true
			for _, p := range in.Pairs {
				res = append(res, int64(sk.KernPair(font.GID(p[0]), font.GID(p[1]))))
			}
		}))
		bl := func(b []byte) string {
			var zs []int64
			for _, x := range b {
				zs = append(zs, int64(x))
			}
			return vh.ZList(zs)
		}
		coq = vh.App("CKern3", vh.App("mkKern3", vh.Zi(in.ValueCount), vh.Zi(in.LeftCount), vh.Zi(in.RightCount), vh.ZList(ks), bl(in.Left), bl(in.Right), bl(in.Index)),
			c09kPairs(in.Pairs), vh.Z(status), vh.Bool(accepted), vh.ZList(res))
	case "kern6":
		row, _ := c09kMakeLookup(in.LFmt, in.LFirst, in.LVals)
		col, _ := c09kMakeLookup(in.RFmt, in.RFirst, in.RVals)
		var ks []int16
		var zs []int64
		for _, v := range in.Kernings {
			ks = append(ks, int16(v))
			zs = append(zs, int64(int16(v)))
		}
		k := font.Kern6{Row: row, Column: col, Kernings: ks}
		var classes [][2]int64
		finish(c09kGuard(func() {
			for _, p := range in.Pairs {
				classes = append(classes, [2]int64{int64(row.ClassUint32(tables.GlyphID(p[0]))), int64(col.ClassUint32(tables.GlyphID(p[1])))})
				res = append(res, int64(k.KernPair(font.GID(p[0]), font.GID(p[1]))))
			}
		}))
		if status == 3 {
			classes = [][2]int64{{0, 0}}
		}
		coq = vh.App("CKern6", vh.ZList(zs), c09kPairs(classes), vh.Z(status), vh.ZList(res))
	case "fd0", "fd3":
		var src []byte
		nGlyphs := len(in.Fds)
		var model string
		if in.Kind == "fd0" {
			src = append([]byte{0}, in.Fds...)
			var zs []int64
			for _, b := range in.Fds {
				zs = append(zs, int64(b))
			}
			model = vh.ZList(zs)
		} else {
			src = []byte{3, byte(len(in.Ranges) >> 8), byte(len(in.Ranges))}
			var rs []string
			for _, rg := range in.Ranges {
				src = append(src, byte(rg[0]>>8), byte(rg[0]), byte(rg[1]))
				rs = append(rs, vh.App("mkRange3", vh.Zi(rg[0]&0xFFFF), vh.Zi(rg[1]&0xFF)))
			}
			src = append(src, byte(in.Sentinel>>8), byte(in.Sentinel))
			model = vh.List(rs)
		}
		extent := 0
		finish(c09kGuard(func() {
			lookup, ext, err := cff.VerifFdSelect(src, nGlyphs)
			if err != nil {
				panic("the generated FDSelect is rejected: " + err.Error())
			}
			extent = ext
			for _, g := range in.Gids {
				if fd, ok := lookup(uint16(g)); ok {
					ores = append(ores, vh.Some(vh.Zi(int(fd))))
				} else {
					ores = append(ores, "None")
				}
			}
		}))
		var gs []int64
		for _, g := range in.Gids {
			gs = append(gs, g&0xFFFF)
		}
		if in.Kind == "fd0" {
			coq = vh.App("CFd0", model, vh.ZList(gs), vh.Z(status), vh.Zi(extent), vh.List(ores))
		} else {
			coq = vh.App("CFd3", model, vh.Zi(in.Sentinel&0xFFFF), vh.ZList(gs), vh.Z(status), vh.Zi(extent), vh.List(ores))
		}
	default:
		return
	}
	idx := o.Add(in, coq, coq, "kind="+in.Kind, "class="+in.Kind+"/"+in.Class, fmt.Sprintf("%s-status=%d", in.Kind, status))
	if hung {
		o.Fail(idx, "hang", in.Kind+": the look-ups did not return within 3 s")
	}
}
