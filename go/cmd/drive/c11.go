package main

import (
	"encoding/json"
	"fmt"

	"github.com/go-text/typesetting/font"
	"github.com/go-text/typesetting/fontscan"

	"verifharness/internal/vh"
)

// ---- c11set: the rune-set container, addRangeToPage, findPageFrom, (de)serialization, coverage from ranges ----

type c11Page struct {
	Ref uint16    `json:"ref"`
	Set [8]uint32 `json:"set"`
}

type c11SetInput struct {
	Kind   string     `json:"kind"` // ops | range | find | deser | cov
	OpsA   [][2]int64 `json:"opsA,omitempty"`
	OpsB   [][2]int64 `json:"opsB,omitempty"`
	Probes []int64    `json:"probes,omitempty"`
	Page   [8]uint32  `json:"page,omitempty"`
	S      int        `json:"s,omitempty"`
	E      int        `json:"e,omitempty"`
	Pages  []c11Page  `json:"pages,omitempty"`
	Low    int        `json:"low,omitempty"`
	Ref    int        `json:"ref,omitempty"`
	Data   []byte     `json:"data,omitempty"`
	Ranges [][2]int64 `json:"ranges,omitempty"`
}

func init() {
	drivers["c11set"] = &driver{
		header: "From TV Require Import Check.C11Set.",
		shard:  150,
		n: func(tier string) int {
			if tier == "quick" {
				return 1500
			}
			return 20000
		},
		decode: func(raw json.RawMessage) (any, error) {
			var in c11SetInput
			err := json.Unmarshal(raw, &in)
			return in, err
		},
		gen: c11SetGen,
		run: c11SetRun,
	}
}

var c11BoundaryRunes = []int64{0, 1, 0x1f, 0x20, 0x3f, 0xff, 0x100, 0x101, 0xffff, 0x10000, 0xff00, 0xfffe, 0x10ffff, 0x10ff00, 0xffffff, 0xffff00}

func c11Rune(r *vh.Rand, hot []int64) int64 {
	switch r.Intn(10) {
	case 0:
		return c11BoundaryRunes[r.Intn(len(c11BoundaryRunes))]
	case 1:
		return int64(r.Intn(0x110000))
	case 2:
		return int64(r.Intn(0x1000000))
	default:
		return hot[r.Intn(len(hot))]<<8 | int64(r.Intn(256))
	}
}

func c11Words(r *vh.Rand) [8]uint32 {
	var p [8]uint32
	for i := range p {
		switch r.Intn(4) {
		case 0:
			p[i] = 0
		case 1:
			p[i] = 0xffffffff
		default:
			p[i] = r.Uint32()
		}
	}
	return p
}

func c11Ops(r *vh.Rand, hot []int64, n int, wild bool) [][2]int64 {
	ops := make([][2]int64, 0, n)
	var added []int64
	for i := 0; i < n; i++ {
		var ru int64
		op := int64(0)
		if r.Chance(30) {
			op = 1
		}
		if op == 1 && len(added) > 0 && r.Chance(70) {
			ru = added[r.Intn(len(added))]
		} else {
			ru = c11Rune(r, hot)
		}
		if wild && r.Chance(20) { // outside the 24 bits a RuneSet distinguishes: correspondence only
			switch r.Intn(3) {
			case 0:
				ru = -ru - 1
			case 1:
				ru += 0x1000000
			default:
				ru = int64(int32(r.Uint32()))
			}
		}
		if op == 0 {
			added = append(added, ru)
		}
		ops = append(ops, [2]int64{op, ru})
	}
	return ops
}

func c11SetGen(r *vh.Rand, tier string, n int, emit func(any)) {
	// exhaustive: addRangeToPage on the empty page for every start <= end in a stride covering every
	// (word, bit) boundary combination, then random pages
	for s := 0; s < 256; s++ {
		for _, e := range []int{s, s + 1, s | 31, (s | 31) + 1, s + 32, s + 33, 255} {
			if e <= 255 {
				emit(c11SetInput{Kind: "range", S: s, E: e})
			}
		}
	}
	// exhaustive page structures for includes: four pages; a holds any subset of them, b has each page absent, present
	// or emptied by a Delete (an all-zero page left behind): 16 x 81 histories
	for am := 0; am < 16; am++ {
		for bm := 0; bm < 81; bm++ {
			var a, b [][2]int64
			x := bm
			for pg := 0; pg < 4; pg++ {
				ru := int64(0x100*(pg+1) + 0x50)
				if am>>pg&1 == 1 {
					a = append(a, [2]int64{0, ru})
				}
				switch x % 3 {
				case 1:
					b = append(b, [2]int64{0, ru})
				case 2:
					b = append(b, [2]int64{0, ru + 1}, [2]int64{1, ru + 1})
				}
				x /= 3
			}
			emit(c11SetInput{Kind: "ops", OpsA: a, OpsB: b, Probes: []int64{0x150, 0x250, 0x251}})
		}
	}
	for i := 0; i < n; i++ {
		nh := r.Range(1, 4)
		hot := make([]int64, nh)
		for j := range hot {
			if r.Chance(30) {
				hot[j] = int64([]int{0, 1, 0xff, 0x100, 0x10ff, 0xffff, 0xfffe}[r.Intn(7)])
			} else {
				hot[j] = int64(r.Intn(0x1100))
			}
		}
		switch k := r.Intn(20); {
		case k < 9:
			wild := r.Chance(8)
			la, lb := r.Range(0, 24), r.Range(0, 16)
			if r.Chance(10) {
				la = r.Range(40, 90)
			}
			a := c11Ops(r, hot, la, wild)
			var b [][2]int64
			switch r.Intn(4) {
			case 0: // b is a sub-history of a: inclusion likely
				for _, op := range a {
					if r.Chance(60) {
						b = append(b, op)
					}
				}
			case 1: // b = a plus extra
				b = append(append(b, a...), c11Ops(r, hot, r.Range(0, 3), false)...)
			default:
				b = c11Ops(r, hot, lb, wild)
			}
			var probes []int64
			for _, op := range append(append([][2]int64{}, a...), b...) {
				if r.Chance(50) {
					probes = append(probes, op[1])
				}
				if r.Chance(15) {
					probes = append(probes, op[1]+1, op[1]-1, op[1]^0x20, op[1]^0x100)
				}
			}
			for j := r.Range(0, 4); j > 0; j-- {
				probes = append(probes, c11Rune(r, hot))
			}
			if len(probes) > 60 {
				probes = probes[:60]
			}
			emit(c11SetInput{Kind: "ops", OpsA: a, OpsB: b, Probes: probes})
		case k < 12:
			s := r.Intn(256)
			e := r.Range(s, 255)
			if r.Chance(5) { // start > end violates the documented assumption: correspondence only
				s, e = e, s
			}
			emit(c11SetInput{Kind: "range", Page: c11Words(r), S: s, E: e})
		case k < 14:
			np := r.Range(0, 9)
			ps := make([]c11Page, np)
			ref := r.Intn(3)
			for j := range ps {
				ps[j] = c11Page{Ref: uint16(ref)}
				ref += r.Range(1, 3)
			}
			low := r.Range(0, np)
			emit(c11SetInput{Kind: "find", Pages: ps, Low: low, Ref: r.Range(0, ref+1)})
		case k < 16:
			np := r.Range(0, 4)
			data := []byte{0, byte(np)}
			if r.Chance(10) {
				data[0] = byte(r.Intn(3))
			}
			for j := 0; j < np; j++ {
				data = append(data, r.Bytes(34)...)
			}
			switch r.Intn(4) {
			case 0:
				data = data[:r.Range(0, len(data))]
			case 1:
				data = append(data, r.Bytes(r.Range(1, 5))...)
			}
			emit(c11SetInput{Kind: "deser", Data: data})
		default:
			emit(c11SetInput{Kind: "cov", Ranges: c11Ranges(r), Probes: nil})
		}
	}
}

// c11Ranges: mostly sorted non-overlapping inclusive ranges with page-boundary shapes; a malformed stream
// (overlapping, unsorted, beyond 24 bits) for the correspondence only.
func c11Ranges(r *vh.Rand) [][2]int64 {
	n := r.Range(0, 6)
	var out [][2]int64
	cur := int64(0)
	if r.Chance(70) {
		cur = int64(r.Intn(0x1100)) << 8
	}
	for i := 0; i < n; i++ {
		var gap, l int64
		switch r.Intn(6) {
		case 0:
			gap = 0 // abutting
		case 1:
			gap = int64(r.Range(1, 3))
		case 2:
			gap = 256 - (cur & 0xff) // to the next page start
		case 3:
			gap = int64(r.Range(200, 800))
		default:
			gap = int64(r.Range(0, 40))
		}
		switch r.Intn(6) {
		case 0:
			l = 0
		case 1:
			l = 255 - ((cur + gap) & 0xff) // to the page end
		case 2:
			l = int64(r.Range(250, 1300)) // several pages
		case 3:
			l = 256 - ((cur + gap) & 0xff) // first rune of the next page
		default:
			l = int64(r.Range(0, 70))
		}
		s := cur + gap
		out = append(out, [2]int64{s, s + l})
		cur = s + l + 1
	}
	if r.Chance(6) && len(out) > 0 { // malformed
		i := r.Intn(len(out))
		switch r.Intn(4) {
		case 0:
			out[i][0], out[i][1] = out[i][1]+3, out[i][0]
		case 1:
			out = append(out, out[i])
		case 2:
			out[i][0] += 0xffff00
			out[i][1] += 0xffff00
		default:
			out[i][1] = out[i][0] + int64(r.Intn(0x30000))
		}
	}
	return out
}

func c11PagesTerm(ps []fontscan.VerifPage) string {
	e := make([]string, len(ps))
	for i, p := range ps {
		w := make([]int64, 8)
		for j, x := range p.Set {
			w[j] = int64(x)
		}
		e[i] = vh.Tuple(vh.Z(int64(p.Ref)), vh.ZList(w))
	}
	return vh.List(e)
}

func c11PairsTerm(ps [][2]int64) string {
	e := make([]string, len(ps))
	for i, p := range ps {
		e[i] = vh.Tuple(vh.Z(p[0]), vh.Z(p[1]))
	}
	return vh.List(e)
}

func c11WordsTerm(p [8]uint32) string {
	w := make([]int64, 8)
	for j, x := range p {
		w[j] = int64(x)
	}
	return vh.ZList(w)
}

func c11Apply(ops [][2]int64) fontscan.RuneSet {
	var rs fontscan.RuneSet
	for _, op := range ops {
		if op[0] == 0 {
			rs.Add(rune(op[1]))
		} else {
			rs.Delete(rune(op[1]))
		}
	}
	return rs
}

func c11SetRun(o *vh.Out, inAny any) {
	in := inAny.(c11SetInput)
	var coq, key string
	var panicked any
	classes := []string{"kind=" + in.Kind}
	func() {
		defer func() { panicked = recover() }()
		switch in.Kind {
		case "ops":
			a, b := c11Apply(in.OpsA), c11Apply(in.OpsB)
			probes := make([]string, len(in.Probes))
			for i, p := range in.Probes {
				probes[i] = vh.Tuple(vh.Z(p), vh.Bool(a.Contains(rune(p))), vh.Bool(b.Contains(rune(p))))
			}
			ser := fontscan.VerifSerialize(a)
			back, n, err := fontscan.VerifDeserialize(append(append([]byte{}, ser...), 7, 7, 7))
			st := int64(0)
			if err != nil {
				st = 1
			}
			iab, iba := fontscan.VerifIncludes(a, b), fontscan.VerifIncludes(b, a)
			coq = vh.App("CSet", c11PairsTerm(in.OpsA), c11PairsTerm(in.OpsB),
				c11PagesTerm(fontscan.VerifPages(a)), c11PagesTerm(fontscan.VerifPages(b)),
				vh.List(probes), vh.Zi(a.Len()), vh.Zi(b.Len()), vh.Bool(iab), vh.Bool(iba),
				vh.BytesLit(ser), vh.Z(st), vh.Zi(n), c11PagesTerm(fontscan.VerifPages(back)))
			if len(in.OpsA)+len(in.OpsB) > 0 {
				key = coq
			}
			classes = append(classes, fmt.Sprintf("pagesA=%d", bucket(len(a))), fmt.Sprintf("inclAB=%v", iab), fmt.Sprintf("opsA=%d", bucket(len(in.OpsA))))
			for _, op := range in.OpsA {
				if op[0] == 1 {
					o.Count("op=delete")
				} else {
					o.Count("op=add")
				}
			}
		case "range":
			out := fontscan.VerifAddRangeToPage(in.Page, byte(in.S), byte(in.E))
			coq = vh.App("CRange", c11WordsTerm(in.Page), vh.Zi(in.S), vh.Zi(in.E), c11WordsTerm(out))
			key = coq
			classes = append(classes, fmt.Sprintf("range_words=%d", in.E>>5-in.S>>5))
		case "find":
			ps := make([]fontscan.VerifPage, len(in.Pages))
			for i, p := range in.Pages {
				ps[i] = fontscan.VerifPage{Ref: p.Ref, Set: p.Set}
			}
			out := fontscan.VerifFindPageFrom(fontscan.VerifFromPages(ps), in.Low, uint16(in.Ref))
			coq = vh.App("CFind", c11PagesTerm(ps), vh.Zi(in.Low), vh.Zi(in.Ref), vh.Zi(out))
			key = coq
			classes = append(classes, fmt.Sprintf("found=%v", out >= 0))
		case "deser":
			rs, n, err := fontscan.VerifDeserialize(in.Data)
			st := int64(0)
			if err != nil {
				st = 1
			}
			coq = vh.App("CDeser", vh.BytesLit(in.Data), vh.Z(st), vh.Zi(n), c11PagesTerm(fontscan.VerifPages(rs)))
			key = coq
			classes = append(classes, fmt.Sprintf("deser_status=%d", st))
		case "cov":
			ranges := make([][2]rune, len(in.Ranges))
			var probeRunes []int64
			for i, ra := range in.Ranges {
				ranges[i] = [2]rune{rune(ra[0]), rune(ra[1])}
				probeRunes = append(probeRunes, ra[0]-1, ra[0], ra[0]+1, ra[1]-1, ra[1], ra[1]+1, (ra[0]+ra[1])/2,
					ra[0]|0xff, (ra[0]|0xff)+1, ra[1]&^0xff, (ra[1]&^0xff)-1)
			}
			var rs fontscan.RuneSet
			st := int64(0)
			func() {
				defer func() {
					if recover() != nil {
						st = 1
					}
				}()
				rs, _ = fontscan.VerifCoveragesFromRanges(ranges)
			}()
			probes := make([]string, 0, len(probeRunes))
			if st == 0 {
				for _, p := range probeRunes {
					probes = append(probes, vh.Tuple(vh.Z(p), vh.Bool(rs.Contains(rune(p)))))
				}
			}
			coq = vh.App("CCov", c11PairsTerm(in.Ranges), vh.Z(st), c11PagesTerm(fontscan.VerifPages(rs)), vh.List(probes))
			if len(in.Ranges) > 0 {
				key = coq
			}
			classes = append(classes, fmt.Sprintf("cov_pages=%d", bucket(len(rs))), fmt.Sprintf("cov_status=%d", st))
		default:
			panic("unknown c11set case kind " + in.Kind)
		}
	}()
	if panicked != nil {
		idx := o.Add(in, "(CDeser [] 1 0 [])", "", append(classes, "go-panic")...)
		o.Fail(idx, "panic", fmt.Sprint(panicked))
		return
	}
	o.Add(in, coq, key, classes...)
}

// ---- c11cmap: synthetic character maps per format: Lookup vs Iter vs RuneRanges vs coverage ----

type c11Seg4 struct {
	Start   uint16   `json:"start"`
	End     uint16   `json:"end"`
	Delta   uint16   `json:"delta"`
	Indexes []uint16 `json:"indexes,omitempty"`
	HasIdx  bool     `json:"hasIdx,omitempty"`
}

type c11CmapInput struct {
	Kind    string      `json:"kind"` // map | new4
	Fmt     int         `json:"fmt,omitempty"`
	Segs    []c11Seg4   `json:"segs,omitempty"`
	Groups  [][3]uint32 `json:"groups,omitempty"`
	First   int64       `json:"first,omitempty"`
	Entries []uint16    `json:"entries,omitempty"`
	Ptr     bool        `json:"ptr,omitempty"`
	M       [][2]int64  `json:"m,omitempty"`
	Remap   int         `json:"remap"`
	Probes  []int64     `json:"probes,omitempty"`
	End     []uint16    `json:"endCode,omitempty"`
	Start   []uint16    `json:"startCode,omitempty"`
	Delta   []uint16    `json:"idDelta,omitempty"`
	Iro     []uint16    `json:"idRangeOffsets,omitempty"`
	GA      []byte      `json:"glyphIDArray,omitempty"`
}

func init() {
	drivers["c11cmap"] = &driver{
		header: "From TV Require Import Check.C11Cmap.",
		shard:  50,
		n: func(tier string) int {
			if tier == "quick" {
				return 1200
			}
			return 15000
		},
		decode: func(raw json.RawMessage) (any, error) {
			var in c11CmapInput
			err := json.Unmarshal(raw, &in)
			return in, err
		},
		gen: c11CmapGen,
		run: c11CmapRun,
	}
}

func c11U16(r *vh.Rand) uint16 {
	switch r.Intn(6) {
	case 0:
		return 0
	case 1:
		return 0xffff
	case 2:
		return uint16(r.Intn(8))
	case 3:
		return uint16(0x10000 - r.Range(1, 300))
	default:
		return uint16(r.Intn(0x10000))
	}
}

// c11GenSegs4: sorted disjoint segments with the boundary shapes of the property text (abutting segments,
// 0xFFFF sentinel, delta wrap-around, glyph arrays with and without zero entries); malformed = overlapping / unsorted.
func c11GenSegs4(r *vh.Rand, zeros, malformed bool) []c11Seg4 {
	n := r.Range(0, 6)
	var segs []c11Seg4
	cur := 0
	if r.Chance(60) {
		cur = r.Intn(0xff00)
	}
	for i := 0; i < n && cur <= 0xffff; i++ {
		gap := []int{0, 0, 1, 2, r.Range(3, 300), r.Range(0, 0x3000)}[r.Intn(6)]
		l := []int{0, 0, 1, r.Range(2, 40), r.Range(2, 40), 255 - ((cur + gap) & 0xff), 256 - ((cur + gap) & 0xff), r.Range(40, 70)}[r.Intn(8)]
		s := cur + gap
		if s > 0xffff {
			break
		}
		e := s + l
		if e > 0xffff {
			e = 0xffff
		}
		seg := c11Seg4{Start: uint16(s), End: uint16(e), Delta: c11U16(r)}
		if r.Chance(15) { // delta that wraps inside the segment
			seg.Delta = uint16(0x10000 - s - r.Range(0, e-s+1))
		}
		if r.Chance(40) {
			seg.HasIdx = true
			seg.Indexes = make([]uint16, e-s+1)
			for j := range seg.Indexes {
				g := c11U16(r)
				if g == 0 && !(zeros && r.Chance(60)) {
					g = uint16(r.Range(1, 0xffff))
				}
				seg.Indexes[j] = g
			}
		}
		segs = append(segs, seg)
		cur = e + 1
	}
	if r.Chance(35) && cur <= 0xffff { // the customary final segment
		segs = append(segs, c11Seg4{Start: 0xffff, End: 0xffff, Delta: 1})
	}
	if malformed && len(segs) > 1 {
		i := r.Range(1, len(segs)-1)
		switch r.Intn(3) {
		case 0: // overlap with the previous segment
			d := segs[i].Start - segs[i-1].End
			if !segs[i].HasIdx && !segs[i-1].HasIdx && int(segs[i].End)-int(segs[i-1].End) < 300 {
				segs[i].Start -= d
			}
		case 1: // shared end point (the shape RuneRanges merges)
			if !segs[i].HasIdx && int(segs[i].End)-int(segs[i-1].End) < 300 {
				segs[i].Start = segs[i-1].End
			}
		default:
			segs[i], segs[i-1] = segs[i-1], segs[i]
		}
	}
	return segs
}

func c11GenGroups(r *vh.Rand, malformed bool) [][3]uint32 {
	n := r.Range(0, 6)
	var gs [][3]uint32
	cur := int64(0)
	switch r.Intn(4) {
	case 0:
		cur = int64(r.Intn(0x110000))
	case 1:
		cur = int64(r.Intn(0x1100)) << 8
	case 2:
		cur = 0xffff - int64(r.Intn(4))
	}
	for i := 0; i < n; i++ {
		gap := []int64{0, 0, 1, int64(r.Range(2, 300)), int64(r.Range(0, 0x20000)), 256 - (cur & 0xff)}[r.Intn(6)]
		s := cur + gap
		l := []int64{0, 0, 1, int64(r.Range(2, 40)), 255 - (s & 0xff), 256 - (s & 0xff), int64(r.Range(40, 70)), int64(r.Range(2, 20))}[r.Intn(8)]
		if r.Chance(4) {
			l = int64(r.Range(250, 300)) // several pages
		}
		e := s + l
		if e > 0x10ffff {
			if s > 0x10ffff {
				break
			}
			e = 0x10ffff
		}
		gid := uint32(r.Intn(0x10000))
		switch r.Intn(8) {
		case 0:
			gid = 0
		case 1:
			gid = uint32(0x100000000 - l - int64(r.Range(0, 2))) // wraps at the end of the group
		case 2:
			gid = r.Uint32()
		}
		gs = append(gs, [3]uint32{uint32(s), uint32(e), gid})
		cur = e + 1
	}
	if malformed && len(gs) > 2 && r.Chance(30) {
		// kept A, B nested in A (dropped), C starting inside A: C must be dropped too
		i := r.Range(2, len(gs)-1)
		a := gs[i-2]
		if a[1] > a[0] && gs[i][1]-a[1] < 300 {
			gs[i-1] = [3]uint32{a[0], a[0] + (a[1]-a[0])/2, gs[i-1][2]}
			gs[i][0] = gs[i-1][1] + 1
		}
	} else if malformed && len(gs) > 1 {
		i := r.Range(1, len(gs)-1)
		switch r.Intn(3) {
		case 0:
			if gs[i][1]-gs[i-1][1] < 300 {
				gs[i][0] = gs[i-1][1] - uint32(r.Intn(int(gs[i-1][1]-gs[i-1][0])+1)) // overlap
			}
		case 1:
			if gs[i][1]-gs[i-1][1] < 300 {
				gs[i][0] = gs[i-1][1] // shared end point
			}
		default:
			gs[i], gs[i-1] = gs[i-1], gs[i]
		}
	}
	return gs
}

// c11GridGroups: sanitizeCmapGroups (newCmap12/13) on every triple of groups whose end points lie on a small grid:
// nested, inverted (end < start), abutting, shared end points, overlapping after a dropped group ... (thorough: all
// 4^6 triples; quick: a sample plus the directed shapes "kept A, dropped B, C overlapping A").
func c11GridGroups(r *vh.Rand, tier string, emit func(any)) {
	grid := []uint32{10, 11, 12, 14}
	mk := func(code int, fmt13 bool) c11CmapInput {
		in := c11CmapInput{Kind: "map", Fmt: 12, Remap: -1}
		if fmt13 {
			in.Fmt = 13
		}
		for k := 0; k < 3; k++ {
			a, b := grid[code%4], grid[code/4%4]
			code /= 16
			in.Groups = append(in.Groups, [3]uint32{a, b, uint32(100 * (k + 1))})
		}
		in.Probes = []int64{9, 10, 11, 12, 13, 14, 15}
		return in
	}
	if tier == "quick" {
		for j := 0; j < 220; j++ {
			emit(mk(r.Intn(4096), j%5 == 0))
		}
	} else {
		for code := 0; code < 4096; code++ {
			emit(mk(code, code%5 == 0))
		}
	}
	// directed: A kept, B dropped (nested in A or inverted), C overlapping A, then a regular group
	for j := 0; j < 40; j++ {
		a0 := uint32(r.Range(20, 2000))
		a1 := a0 + uint32(r.Range(4, 60))
		b0 := a0 + uint32(r.Range(0, 2))
		b1 := b0 + uint32(r.Range(0, 1))
		if r.Bool() { // inverted
			b0, b1 = b1+1, b0
		}
		c0 := b1 + 1 + uint32(r.Range(0, 2))
		if b1 < a0 {
			c0 = a0 + uint32(r.Range(1, 3))
		}
		c1 := a1 + uint32(r.Range(0, 30))
		in := c11CmapInput{Kind: "map", Fmt: 12 + j%2, Remap: -1,
			Groups: [][3]uint32{{a0, a1, 10}, {b0, b1, 100}, {c0, c1, 200}, {c1 + 40, c1 + 50, 300}}}
		in.Probes = []int64{int64(a0) - 1, int64(a0), int64(b0), int64(b1), int64(c0), int64(a1), int64(a1) + 1, int64(c1), int64(c1) + 1, int64(c1) + 40}
		emit(in)
	}
}

func c11CmapGen(r *vh.Rand, tier string, n int, emit func(any)) {
	c11GridGroups(r, tier, emit)
	for i := 0; i < n; i++ {
		in := c11CmapInput{Kind: "map", Remap: -1}
		malformed := r.Chance(18) // overlapping, unsorted, shared end points: dropped by the sanitizing constructors
		var bounds []int64
		switch k := r.Intn(20); {
		case k < 8:
			in.Fmt = 4
			in.Segs = c11GenSegs4(r, r.Chance(25), malformed)
			for _, s := range in.Segs {
				bounds = append(bounds, int64(s.Start), int64(s.End))
			}
		case k < 13:
			in.Fmt = 12
			in.Groups = c11GenGroups(r, malformed)
		case k < 15:
			in.Fmt = 13
			in.Groups = c11GenGroups(r, malformed)
		case k < 17:
			in.Fmt = 6
			in.Ptr = r.Bool()
			in.First = int64([]int{0, 1, r.Intn(0x10000), r.Intn(0x110000), 0xff00 + r.Intn(0x100)}[r.Intn(5)])
			in.Entries = make([]uint16, r.Range(0, 70))
			if in.Ptr && len(in.Entries) == 0 {
				// (*cmap6or10).RuneRanges of an empty table is [first, first-1]; the pointer form is never built by
				// ProcessCmap, so this is not reachable from a font: keep the value form only
				in.Ptr = false
			}
			for j := range in.Entries {
				in.Entries[j] = c11U16(r)
			}
			bounds = append(bounds, in.First, in.First+int64(len(in.Entries))-1)
		case k < 18:
			in.Fmt = 0
			seen := map[int64]bool{}
			for j := r.Range(0, 30); j > 0; j-- {
				ru := int64(r.Intn(0x400))
				if r.Chance(20) {
					ru = int64(r.Intn(0x3000))
				}
				if !seen[ru] {
					seen[ru] = true
					in.M = append(in.M, [2]int64{ru, int64(r.Intn(256))})
				}
			}
			sortPairs(in.M)
			for _, p := range in.M {
				bounds = append(bounds, p[0])
			}
		default:
			// newCmap4 on raw arrays
			nin := c11CmapInput{Kind: "new4", Remap: -1}
			segs := c11GenSegs4(r, true, false)
			nseg := len(segs)
			for si, s := range segs {
				nin.End = append(nin.End, s.End)
				nin.Start = append(nin.Start, s.Start)
				nin.Delta = append(nin.Delta, s.Delta)
				iro := uint16(0)
				if s.HasIdx {
					// place the glyphs at the current end of the glyph array
					iro = uint16(2 * (len(nin.GA)/2 + nseg - si))
					for _, g := range s.Indexes {
						nin.GA = append(nin.GA, byte(g>>8), byte(g))
					}
				}
				if r.Chance(6) {
					iro = c11U16(r) // arbitrary offsets: errors, panics, shared arrays
				}
				if s.Start == 0xffff && r.Chance(50) {
					iro = 0xffff
				}
				nin.Iro = append(nin.Iro, iro)
			}
			if r.Chance(10) && len(nin.GA) > 0 {
				nin.GA = nin.GA[:r.Intn(len(nin.GA))]
			}
			emit(nin)
			continue
		}
		for _, g := range in.Groups {
			bounds = append(bounds, int64(g[0]), int64(g[1]))
		}
		if r.Chance(14) {
			in.Remap = 0 // symbol
			// the legacy arabic remapers walk 0..0xFEFC: the model costs seconds per case, keep them rare
			if (tier != "quick" && r.Chance(8)) || (tier == "quick" && i%200 == 7) {
				in.Remap = 1 + r.Intn(2)
			}
		}
		if in.Remap >= 0 && r.Chance(75) {
			// give the remaper something to reach: a segment / group / entry in the private use block it maps to
			base := []int{0xf020, 0xf120, 0xf220}[in.Remap] + r.Intn(0x60)
			last := base + r.Range(0, 40)
			switch in.Fmt {
			case 4:
				seg := c11Seg4{Start: uint16(base), End: uint16(last), Delta: c11U16(r)}
				if r.Chance(40) {
					seg.HasIdx = true
					seg.Indexes = make([]uint16, last-base+1)
					for j := range seg.Indexes {
						seg.Indexes[j] = uint16(r.Intn(4)) // with missing-glyph entries
					}
				}
				n := len(in.Segs)
				if n > 0 && in.Segs[n-1].Start == 0xffff {
					in.Segs = append(in.Segs[:n-1:n-1], seg, in.Segs[n-1])
				} else {
					in.Segs = append(in.Segs, seg)
				}
			case 12, 13:
				in.Groups = append(in.Groups, [3]uint32{uint32(base), uint32(last), uint32(r.Intn(0x10000))})
			case 6:
				in.First = int64(base)
			case 0:
				dup := false
				for _, p := range in.M {
					dup = dup || p[0] == int64(base)
				}
				if !dup {
					in.M = append(in.M, [2]int64{int64(base), int64(r.Range(1, 255))})
					sortPairs(in.M)
				}
			}
			bounds = append(bounds, int64(base), int64(last), int64(base-0xf000), int64(last-0xf000))
		}
		probes := []int64{0, 0xffff, 0x10000, -1, 0x10ffff, 0x110000}
		for _, b := range bounds {
			probes = append(probes, b-1, b, b+1)
			if r.Chance(30) {
				probes = append(probes, b^0x100, b&0xff, b-0xf000, b+0x1000000)
			}
		}
		for j := 0; j+1 < len(bounds); j += 2 {
			if bounds[j+1] > bounds[j] {
				probes = append(probes, bounds[j]+int64(r.Intn(int(bounds[j+1]-bounds[j]))))
			}
		}
		for j := r.Range(1, 6); j > 0; j-- {
			probes = append(probes, int64(r.Intn(0x110000)), int64(r.Intn(0x100)))
		}
		if in.Remap > 0 {
			probes = append(probes, 0x20, 0x25, 0x60c, 0x621, 0x660, 0xfe70, 0xfe80, 0xfefc, int64(0x621+r.Intn(0x40)), int64(0xfe70+r.Intn(0x8d)))
		}
		if len(probes) > 90 {
			probes = probes[:90]
		}
		in.Probes = probes
		emit(in)
	}
}

func sortPairs(m [][2]int64) {
	for i := 1; i < len(m); i++ {
		for j := i; j > 0 && m[j][0] < m[j-1][0]; j-- {
			m[j], m[j-1] = m[j-1], m[j]
		}
	}
}

func c11SegTerm(s font.VerifSeg4) string {
	idx := "None"
	if s.HasIndexes {
		w := make([]int64, len(s.Indexes))
		for i, g := range s.Indexes {
			w[i] = int64(g)
		}
		idx = vh.Some(vh.ZList(w))
	}
	return vh.Tuple(vh.Z(int64(s.Start)), vh.Z(int64(s.End)), vh.Z(int64(s.Delta)), idx)
}

func c11CmapRun(o *vh.Out, inAny any) {
	in := inAny.(c11CmapInput)
	classes := []string{"kind=" + in.Kind, fmt.Sprintf("fmt=%d", in.Fmt), fmt.Sprintf("remap=%d", in.Remap)}
	if in.Kind == "new4" {
		status := int64(0)
		var segs []font.VerifSeg4
		func() {
			defer func() {
				if recover() != nil {
					status = 2
				}
			}()
			var err error
			_, segs, err = font.VerifNewCmap4(in.End, in.Start, in.Delta, in.Iro, in.GA)
			if err != nil {
				status = 1
			}
		}()
		qs := make([]string, len(in.End))
		for i := range in.End {
			qs[i] = vh.Tuple(vh.Z(int64(in.End[i])), vh.Z(int64(in.Start[i])), vh.Z(int64(in.Delta[i])), vh.Z(int64(in.Iro[i])))
		}
		st := make([]string, len(segs))
		for i, s := range segs {
			st[i] = c11SegTerm(s)
		}
		coq := vh.App("CNew4", vh.List(qs), vh.BytesLit(in.GA), vh.Z(status), vh.List(st))
		o.Add(in, coq, coq, append(classes, fmt.Sprintf("new4_status=%d", status))...)
		return
	}
	var cm font.Cmap
	var desc string
	switch in.Fmt {
	case 4:
		segs := make([]font.VerifSeg4, len(in.Segs))
		st := make([]string, len(in.Segs))
		for i, s := range in.Segs {
			segs[i] = font.VerifSeg4{Start: s.Start, End: s.End, Delta: s.Delta, Indexes: s.Indexes, HasIndexes: s.HasIdx}
			st[i] = c11SegTerm(segs[i])
			if s.HasIdx {
				o.Count("seg4=indexed")
				for _, g := range s.Indexes {
					if g == 0 {
						o.Count("seg4_zero_entry")
						break
					}
				}
			} else {
				o.Count("seg4=delta")
			}
		}
		cm = font.VerifSanitizeCmap4(font.VerifCmap4(segs)) // as ProcessCmap holds it
		desc = vh.App("D4", vh.List(st))
	case 12, 13:
		gt := make([]string, len(in.Groups))
		for i, g := range in.Groups {
			gt[i] = vh.Tuple(vh.Z(int64(g[0])), vh.Z(int64(g[1])), vh.Z(int64(g[2])))
		}
		if in.Fmt == 12 {
			cm = font.VerifNewCmap12(in.Groups)
			desc = vh.App("D12", vh.List(gt))
		} else {
			cm = font.VerifNewCmap13(in.Groups)
			desc = vh.App("D13", vh.List(gt))
		}
	case 6:
		cm = font.VerifCmap6or10(rune(in.First), in.Entries, in.Ptr)
		w := make([]int64, len(in.Entries))
		for i, g := range in.Entries {
			w[i] = int64(g)
		}
		desc = vh.App("D6", vh.Z(in.First), vh.ZList(w), vh.Bool(in.Ptr))
	case 0:
		m := map[rune]uint8{}
		for _, p := range in.M {
			m[rune(p[0])] = uint8(p[1])
		}
		cm = font.VerifCmap0(m)
		desc = vh.App("D0", c11PairsTerm(in.M))
	default:
		panic("unknown cmap format")
	}
	inner := cm
	if in.Remap >= 0 {
		cm = font.VerifRemap(in.Remap, cm)
	}
	var panicked any
	var coq string
	nIter := 0
	func() {
		defer func() { panicked = recover() }()
		var iter [][2]int64
		it := cm.Iter()
		for it.Next() {
			r, g := it.Char()
			iter = append(iter, [2]int64{int64(r), int64(g)})
			if len(iter) > 200000 {
				panic("iterator does not stop")
			}
		}
		if in.Fmt == 0 { // Go iterates the map of cmap0 in an unspecified order; a remaper appends its runes afterwards
			n := len(in.M)
			if n > len(iter) {
				n = len(iter)
			}
			sortPairs(iter[:n])
		}
		nIter = len(iter)
		var iterLk []string // only the positions where Lookup does not return the enumerated glyph
		var runes []int64
		for i, p := range iter {
			g, ok := cm.Lookup(rune(p[0]))
			if !ok || int64(g) != p[1] {
				iterLk = append(iterLk, vh.Tuple(vh.Zi(i), vh.Z(int64(g)), vh.Bool(ok)))
			}
			runes = append(runes, p[0])
		}
		probes := make([]string, len(in.Probes))
		var remapped []int64
		for i, p := range in.Probes {
			g, ok := cm.Lookup(rune(p))
			probes[i] = vh.Tuple(vh.Z(p), vh.Z(int64(g)), vh.Bool(ok))
			runes = append(runes, p)
			simp, trad := font.VerifArabicPUAMaps(rune(p))
			if (in.Remap == 0 && p <= 0xff) || (in.Remap == 1 && simp != 0) || (in.Remap == 2 && trad != 0) {
				remapped = append(remapped, p)
			}
		}
		var ranges [][2]int64
		_, ranger := cm.(font.CmapRuneRanger)
		if rg, ok := inner.(font.CmapRuneRanger); ok && in.Remap < 0 {
			for _, ra := range rg.RuneRanges(nil) {
				ranges = append(ranges, [2]int64{int64(ra[0]), int64(ra[1])})
			}
		} else if ranger { // remappers embed the interface value: RuneRanges is not promoted
			for _, ra := range cm.(font.CmapRuneRanger).RuneRanges(nil) {
				ranges = append(ranges, [2]int64{int64(ra[0]), int64(ra[1])})
			}
		}
		cov, _ := fontscan.VerifCoverages(cm)
		var covb []int64 // positions (in iter ++ probes) whose rune the coverage contains
		for i, ru := range runes {
			if cov.Contains(rune(ru)) {
				covb = append(covb, int64(i))
			}
		}
		coq = vh.App("CMap", desc, vh.Zi(in.Remap), vh.ZList(remapped), c11PairsTerm(iter), vh.List(iterLk), vh.List(probes),
			vh.Bool(ranger), c11PairsTerm(ranges), c11PagesTerm(fontscan.VerifPages(cov)), vh.ZList(covb))
	}()
	if panicked != nil {
		idx := o.Add(in, "(CNew4 [] [] 0 [])", "", append(classes, "go-panic")...)
		o.Fail(idx, "panic", fmt.Sprint(panicked))
		return
	}
	key := ""
	if nIter > 0 {
		key = coq
	}
	o.Add(in, coq, key, append(classes, fmt.Sprintf("iter=%d", bucket(nIter)))...)
}
