package main

import (
	"encoding/json"
	"fmt"

	hb "github.com/go-text/typesetting/harfbuzz"

	"verifharness/internal/vh"
)

// ---- c18ctx: the real GSUB contextual lookups of format 3 (ChainedContextualSubs3 / ContextualSubs3) with nested
// single substitutions, run through the real lookup loop on a real Buffer with synthetic tables, against
// Model/Context3.v; plus the cut statement of C18 and the persistence of the flags on the implementation's own outputs
// (Check/C18Ctx.v). ----------

type x18Rec struct {
	K       int      `json:"k"`
	Singles [][2]int `json:"singles"`
}
type x18Lookup struct {
	Flag    uint16   `json:"flag"`
	Mask    uint32   `json:"mask"`
	Chained bool     `json:"chained"`
	Back    [][]int  `json:"back,omitempty"`
	In      [][]int  `json:"in"`
	Ahead   [][]int  `json:"ahead,omitempty"`
	Recs    []x18Rec `json:"recs"`
}
type x18Input struct {
	Items   []e18Item   `json:"items"`
	Level   int         `json:"level"`
	Lookups []x18Lookup `json:"lookups"`
}

func init() {
	drivers["c18ctx"] = &driver{
		header: "From TV Require Import Check.C18Ctx.",
		shard:  60,
		n: func(tier string) int {
			if tier == "quick" {
				return 600
			}
			return 6000
		},
		decode: func(raw json.RawMessage) (any, error) {
			var in x18Input
			err := json.Unmarshal(raw, &in)
			return in, err
		},
		gen: x18Gen,
		run: x18Run,
	}
}

func x18Apply(in x18Input, items []e18Item) ([]e18Item, string) {
	vb := e18ToVerif(e18Input{Level: in.Level, Dir: 4}, items)
	ls := make([]hb.VerifCtx3Lookup, len(in.Lookups))
	for i, l := range in.Lookups {
		v := hb.VerifCtx3Lookup{Flag: l.Flag, Mask: l.Mask, Chained: l.Chained, Back: l.Back, In: l.In, Ahead: l.Ahead}
		for _, r := range l.Recs {
			v.Recs = append(v.Recs, hb.VerifCtxRec{SeqIndex: r.K, Singles: r.Singles})
		}
		ls[i] = v
	}
	out, msg := hb.VerifApplyGSUBContext3(vb, ls)
	return e18FromVerif(out), msg
}

func x18CoqCovs(cs [][]int) string {
	e := make([]string, len(cs))
	for i, c := range cs {
		e[i] = vh.IntList(c)
	}
	return vh.List(e)
}

func x18CoqLookups(ls []x18Lookup) string {
	e := make([]string, len(ls))
	for i, l := range ls {
		rs := make([]string, len(l.Recs))
		for j, r := range l.Recs {
			ss := make([]string, len(r.Singles))
			for k, s := range r.Singles {
				ss[k] = vh.Tuple(vh.Zi(s[0]), vh.Zi(s[1]))
			}
			rs[j] = vh.Tuple(fmt.Sprintf("%d%%nat", r.K), vh.List(ss))
		}
		back, ahead := l.Back, l.Ahead
		if !l.Chained { // ContextualSubs3: no backtrack, no lookahead
			back, ahead = nil, nil
		}
		e[i] = vh.App("mkCX", vh.Zi(int(l.Flag)), vh.Zi(int(l.Mask>>3)), x18CoqCovs(back), x18CoqCovs(l.In), x18CoqCovs(ahead), vh.List(rs))
	}
	return vh.List(e)
}

func x18Run(o *vh.Out, inAny any) {
	in := inAny.(x18Input)
	out, msg := x18Apply(in, in.Items)
	panicked := msg != ""
	var cuts []string
	ncut := 0
	if !panicked {
		cuts, ncut, msg = e18Cuts(in.Items, out, func(x []e18Item) ([]e18Item, string) { return x18Apply(in, x) })
		panicked = msg != ""
	}
	coq := vh.App("mkXC", x18CoqLookups(in.Lookups), e18CoqItems(in.Items), e18CoqItems(out), vh.Bool(panicked), vh.List(cuts))
	changed := "same"
	if fmt.Sprint(out) != fmt.Sprint(in.Items) {
		changed = "changed"
	}
	classes := []string{"ctx/" + changed}
	subst, flagged := false, false
	for i := range out {
		if i < len(in.Items) {
			if out[i].G != in.Items[i].G {
				subst = true
			}
			if out[i].M&1 != 0 && in.Items[i].M&1 == 0 {
				flagged = true
			}
		}
	}
	if subst {
		classes = append(classes, "ctx/substituted")
	}
	if flagged {
		classes = append(classes, "ctx/flagged")
	}
	if ncut > 0 {
		classes = append(classes, "ctx/cut")
	}
	key := ""
	if changed == "changed" || ncut > 0 {
		key = fmt.Sprintf("%v/%v", in.Items, out)
		classes = append(classes, "nontrivial")
	}
	idx := o.Add(in, coq, key, classes...)
	if panicked {
		o.Fail(idx, "panic", msg)
	}
}

// ---- generator ----

func x18Items(r *vh.Rand, maxN int) []e18Item {
	n := r.Range(0, maxN)
	if r.Chance(90) && n < 3 {
		n = r.Range(3, maxN)
	}
	items := make([]e18Item, n)
	reverse := r.Chance(20)
	c := r.Range(0, 3)
	for i := range items {
		if i > 0 && r.Chance(70) {
			c += r.Range(1, 3)
		}
		kind := 0
		switch x := r.Intn(100); {
		case x < 78:
			kind = 0
		case x < 89:
			kind = 1
		default:
			kind = 2
		}
		g, u, q := e18Glyph(r, kind)
		if kind == 0 {
			g = r.Range(1, 5) // few letters: matches are frequent
		}
		m := uint32(8)
		switch r.Intn(16) {
		case 0:
			m = 0
		case 1:
			m = 16
		case 2:
			m = 24
		}
		if r.Chance(10) {
			m |= uint32(r.Range(1, 7)) // pre-set glyph flags
		}
		it := e18Item{C: c, M: m, G: g, U: u, Q: q}
		if r.Chance(10) {
			it.Q |= 16
		}
		items[i] = it
	}
	if reverse {
		for i, j := 0, len(items)-1; i < j; i, j = i+1, j-1 {
			items[i], items[j] = items[j], items[i]
		}
	}
	return items
}

// a coverage: mostly the glyph at position p of the input (so that the rule fits the text), plus some others
func x18Cov(r *vh.Rand, items []e18Item, p int, letters []int) []int {
	var cov []int
	if p >= 0 && p < len(items) && items[p].G <= 10 && r.Chance(93) { // marks and default ignorables stay out of the coverages
		cov = append(cov, items[p].G)
	}
	extra := r.Range(0, 2)
	for i := 0; i < extra; i++ {
		cov = append(cov, e18Pick(r, letters, 1, 6))
	}
	if len(cov) == 0 && r.Chance(90) {
		cov = append(cov, r.Range(1, 6))
	}
	return cov
}

func x18Gen(r *vh.Rand, tier string, n int, emit func(any)) {
	maxN := 7
	if tier != "quick" {
		maxN = 9
	}
	// fixed witnesses first: a chained context whose window [backtrack, lookahead) is flagged; a plain context; ZWNJ in the context
	fixed := []x18Input{
		{Items: []e18Item{{C: 0, M: 8, G: 5, U: upLo}, {C: 1, M: 8, G: 1, U: upLo}, {C: 2, M: 8, G: 2, U: upLo}, {C: 3, M: 8, G: 3, U: upLo}, {C: 4, M: 8, G: 4, U: upLo}, {C: 5, M: 8, G: 5, U: upLo}},
			Lookups: []x18Lookup{{Mask: 8, Chained: true, Back: [][]int{{1}}, In: [][]int{{2}, {3}}, Ahead: [][]int{{4}}, Recs: []x18Rec{{K: 1, Singles: [][2]int{{3, 9}}}}}}},
		{Items: []e18Item{{C: 0, M: 8, G: 1, U: upLo}, {C: 1, M: 8, G: 2, U: upLo}, {C: 2, M: 8, G: 3, U: upLo}},
			Lookups: []x18Lookup{{Mask: 8, In: [][]int{{1}, {2}}, Recs: []x18Rec{{K: 0, Singles: [][2]int{{1, 7}}}, {K: 1, Singles: [][2]int{{2, 8}}}}}}},
		// a ZWNJ between the backtrack glyph and the input, and one inside the lookahead: the context iterator skips both,
		// the input iterator does not skip the ZWNJ between the two input glyphs of the second lookup
		{Items: []e18Item{{C: 0, M: 8, G: 1, U: upLo}, {C: 1, M: 8, G: 30, U: upFormat | upIgnorable | upZwnj}, {C: 2, M: 8, G: 2, U: upLo}, {C: 3, M: 8, G: 30, U: upFormat | upIgnorable | upZwnj}, {C: 4, M: 8, G: 3, U: upLo}},
			Lookups: []x18Lookup{{Mask: 8, Chained: true, Back: [][]int{{1}}, In: [][]int{{2}}, Ahead: [][]int{{3}}, Recs: []x18Rec{{K: 0, Singles: [][2]int{{2, 6}}}}},
				{Mask: 8, Chained: true, In: [][]int{{6}, {3}}, Recs: []x18Rec{{K: 0, Singles: [][2]int{{6, 7}}}}}}},
	}
	for i := 0; i < n; i++ {
		if i < len(fixed) {
			emit(fixed[i])
			continue
		}
		var in x18Input
		in.Items = x18Items(r, maxN)
		in.Level = r.Intn(2)
		letters, _, _ := e18Gids(in.Items)
		nl := r.Range(1, 3)
		for j := 0; j < nl; j++ {
			l := x18Lookup{Mask: []uint32{8, 8, 8, 8, 8, 8, 24, 24, 16, 0}[r.Intn(10)], Flag: []uint16{0, 0, 0, 0, 8, 8, 8, 4, 2}[r.Intn(9)], Chained: r.Chance(75)}
			// the rule is laid over the letters of the input starting at `at` (marks and ignorables in between are
			// skipped by the iterators when the lookup flag says so)
			var pos []int
			for p, it := range in.Items {
				if it.G <= 10 {
					pos = append(pos, p)
				}
			}
			nb, ni, na := 0, r.Range(1, 3), 0
			if l.Chained {
				nb, na = r.Range(0, 2), r.Range(0, 2)
			}
			at := 0
			if len(pos) > 0 {
				at = r.Intn(len(pos))
			}
			at0 := at
			if r.Chance(80) && at < nb && len(pos) > nb {
				at0 = nb
			}
			get := func(k int) int { // input position of the k-th letter relative to the first input glyph
				if at0+k >= 0 && at0+k < len(pos) {
					return pos[at0+k]
				}
				return -1
			}
			for k := 1; k <= nb; k++ {
				l.Back = append(l.Back, x18Cov(r, in.Items, get(-k), letters))
			}
			for k := 0; k < ni; k++ {
				l.In = append(l.In, x18Cov(r, in.Items, get(k), letters))
			}
			for k := 0; k < na; k++ {
				l.Ahead = append(l.Ahead, x18Cov(r, in.Items, get(ni+k), letters))
			}
			nr := r.Range(0, 3)
			if r.Chance(70) && nr == 0 {
				nr = 1
			}
			for k := 0; k < nr; k++ {
				rec := x18Rec{K: r.Intn(ni)}
				if r.Chance(6) {
					rec.K = ni + r.Intn(2) // out of range: ignored
				}
				ns := r.Range(1, 3)
				for q := 0; q < ns; q++ {
					from := r.Range(1, 6)
					if p := get(rec.K); p >= 0 && r.Chance(80) {
						from = in.Items[p].G
					}
					rec.Singles = append(rec.Singles, [2]int{from, r.Range(1, 9)})
				}
				l.Recs = append(l.Recs, rec)
			}
			in.Lookups = append(in.Lookups, l)
		}
		emit(in)
	}
}
