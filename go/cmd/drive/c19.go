package main

import (
	"bytes"
	"encoding/json"
	"fmt"
	"sort"

	ot "github.com/go-text/typesetting/font/opentype"

	"verifharness/internal/vh"
)

// c19Table is one input table: content plus the spare capacity behind it in the same backing array.
type c19Table struct {
	Tag     uint32 `json:"tag"`
	Content []byte `json:"content"`
	Spare   []byte `json:"spare"`
}
type c19Input struct {
	Tables []c19Table `json:"tables"`
}

func init() {
	drivers["c19"] = &driver{
		header: "From TV Require Import Check.C19.",
		shard:  100,
		n: func(tier string) int {
			if tier == "quick" {
				return 1200
			}
			return 12000
		},
		decode: func(raw json.RawMessage) (any, error) {
			var in c19Input
			err := json.Unmarshal(raw, &in)
			return in, err
		},
		gen: c19Gen,
		run: c19Run,
	}
}

func c19Tag(s string) uint32 { return uint32(s[0])<<24 | uint32(s[1])<<16 | uint32(s[2])<<8 | uint32(s[3]) }

var c19StdTags = func() []uint32 {
	var out []uint32
	for _, s := range []string{"head", "hhea", "maxp", "OS/2", "hmtx", "cmap", "loca", "glyf", "name", "post", "CFF ", "CFF2", "GDEF", "GSUB",
		"GPOS", "kern", "DSIG", "fvar", "gvar", "vhea", "vmtx", "bhed", "ttcf", "OTTO", "true", "wOFF"} {
		out = append(out, c19Tag(s))
	}
	return out
}()

func c19Gen(r *vh.Rand, tier string, n int, emit func(any)) {
	// exhaustive part: one table of every length 0..9 with every spare capacity 0..4, then
	// table counts 0..40 (header fields), then random lists.
	for l := 0; l <= 9; l++ {
		for sp := 0; sp <= 4; sp++ {
			emit(c19Input{Tables: []c19Table{{Tag: 0x61626364, Content: r.Bytes(l), Spare: r.Bytes(sp)}}})
		}
	}
	for k := 0; k <= 40; k++ {
		var ts []c19Table
		for i := 0; i < k; i++ {
			ts = append(ts, c19Table{Tag: uint32(0x41000000 + i*7), Content: r.Bytes(r.Range(0, 6)), Spare: r.Bytes(r.Range(0, 3))})
		}
		emit(c19Input{Tables: ts})
	}
	// the tags of real fonts (a writer may treat some of them specially, e.g. 'head' and its checkSumAdjustment):
	// every standard tag alone with 0, 11, 12, 16 and 54 non-zero bytes, and all of them together
	var all []c19Table
	for _, tg := range c19StdTags {
		for _, l := range []int{0, 11, 12, 16, 54} {
			c := r.Bytes(l)
			for i := range c {
				c[i] |= 1
			}
			emit(c19Input{Tables: []c19Table{{Tag: tg, Content: c, Spare: r.Bytes(l % 3)}}})
		}
		c := r.Bytes(r.Range(12, 40))
		for i := range c {
			c[i] |= 0x10
		}
		all = append(all, c19Table{Tag: tg, Content: c, Spare: r.Bytes(r.Range(0, 3))})
	}
	sort.SliceStable(all, func(a, b int) bool { return all[a].Tag < all[b].Tag })
	emit(c19Input{Tables: all})
	for i := 0; i < n; i++ {
		k := r.Range(0, 6)
		if r.Chance(15) {
			k = r.Range(7, 40)
		}
		tags := map[uint32]bool{}
		var ts []c19Table
		budget := 400
		if r.Chance(2) {
			budget = 4600
		}
		for j := 0; j < k; j++ {
			var tag uint32
			switch r.Intn(5) {
			case 4:
				tag = c19StdTags[r.Intn(len(c19StdTags))]
			case 0:
				tag = uint32(r.Uint32())
			case 1:
				tag = uint32(0x20202020 + r.Intn(64))
			default:
				b := []byte{byte(r.Range(0x20, 0x7e)), byte(r.Range(0x20, 0x7e)), byte(r.Range(0x20, 0x7e)), byte(r.Range(0x20, 0x7e))}
				tag = uint32(b[0])<<24 | uint32(b[1])<<16 | uint32(b[2])<<8 | uint32(b[3])
			}
			dup := tags[tag]
			if dup && !r.Chance(10) { // mostly distinct; a small malformed stream keeps duplicates
				continue
			}
			tags[tag] = true
			l := r.Range(0, 24)
			switch r.Intn(10) {
			case 0:
				l = r.Range(25, 200)
			case 1:
				if budget > 4200 {
					l = r.Range(4090, 4096)
				}
			case 2:
				l = 0
			}
			if l > budget {
				l = budget
			}
			budget -= l
			sp := 0
			if r.Chance(60) {
				sp = r.Range(1, 9)
			}
			ts = append(ts, c19Table{Tag: tag, Content: r.Bytes(l), Spare: r.Bytes(sp)})
		}
		if !r.Chance(8) { // the property's precondition: sorted by tag; 8% stay unsorted (correspondence only)
			sort.SliceStable(ts, func(a, b int) bool { return ts[a].Tag < ts[b].Tag })
		}
		emit(c19Input{Tables: ts})
	}
}

func c19Run(o *vh.Out, inAny any) {
	in := inAny.(c19Input)
	tables := make([]ot.Table, len(in.Tables))
	backings := make([][]byte, len(in.Tables))
	residues := ""
	total := 0
	for i, t := range in.Tables {
		// content and spare share one backing array; the table sees only [0:len] with cap = len+spare
		back := make([]byte, len(t.Content)+len(t.Spare))
		copy(back, t.Content)
		copy(back[len(t.Content):], t.Spare)
		backings[i] = back
		tables[i] = ot.Table{Tag: ot.Tag(t.Tag), Content: back[:len(t.Content)]}
		residues += fmt.Sprint(len(t.Content) % 4)
		total += len(t.Content)
	}
	var (
		out      []byte
		panicked any
	)
	func() {
		defer func() { panicked = recover() }()
		out = ot.WriteTTF(tables)
	}()
	idx := -1
	tabs := make([]string, len(in.Tables))
	after := make([]string, len(in.Tables))
	for i, t := range in.Tables {
		tabs[i] = vh.Tuple(vh.Z(int64(t.Tag)), vh.BytesLit(t.Content), vh.BytesLit(t.Spare))
		after[i] = vh.BytesLit(backings[i])
	}
	// read back
	loadStatus := int64(0)
	var tagsRead []int64
	var raws, raws2 []string
	var reread []ot.Table // what a client gets back: every directory tag with its RawTable bytes
	rereadOK := true
	var reuse []byte // buffer handed to RawTableTo and reused from table to table
	if panicked == nil {
		func() {
			defer func() {
				if p := recover(); p != nil {
					panicked = p
				}
			}()
			ld, err := ot.NewLoader(bytes.NewReader(out))
			if err != nil {
				loadStatus = 1
				return
			}
			for _, tg := range ld.Tables() {
				tagsRead = append(tagsRead, int64(tg))
				b, err := ld.RawTable(tg)
				st := int64(0)
				if err != nil {
					st = 1
					b = nil
					rereadOK = false
				}
				reread = append(reread, ot.Table{Tag: tg, Content: append([]byte(nil), b...)})
				raws = append(raws, vh.Tuple(vh.Z(st), vh.BytesLit(b)))
				// the same table through RawTableTo with the buffer of the previous table
				b2, err2 := ld.RawTableTo(tg, reuse)
				st2 := int64(0)
				if err2 != nil {
					st2 = 1
					b2 = nil
				} else {
					reuse = b2
				}
				raws2 = append(raws2, vh.Tuple(vh.Z(st2), vh.BytesLit(b2)))
			}
		}()
	}
	coq := vh.App("mkCase", vh.List(tabs), vh.BytesLit(out), vh.List(after), vh.Z(loadStatus), vh.ZList(tagsRead), vh.List(raws), vh.List(raws2))
	key := ""
	if len(in.Tables) > 0 {
		key = coq
	}
	class := fmt.Sprintf("ntables=%d", bucket(len(in.Tables)))
	idx = o.Add(in, coq, key, class, "bytes="+fmt.Sprint(bucket(total)))
	for _, t := range in.Tables {
		o.Count(fmt.Sprintf("len%%4=%d", len(t.Content)%4))
		if len(t.Spare) > 0 {
			o.Count("with_spare")
		}
	}
	if panicked != nil {
		o.Fail(idx, "panic", fmt.Sprint(panicked))
	} else if loadStatus == 0 && rereadOK && c19StrictlySorted(in.Tables) {
		// theorem rewrite_is_byte_identical on the implementation: writing what was read back (every directory
		// tag with its RawTable bytes) reproduces the file; hypotheses = strictly increasing tags, all reads succeeded
		var out2 []byte
		var p2 any
		func() {
			defer func() { p2 = recover() }()
			out2 = ot.WriteTTF(reread)
		}()
		o.Count("rewrite_checked")
		if p2 != nil {
			o.Fail(idx, "rewrite-panic", fmt.Sprint(p2))
		} else if !bytes.Equal(out, out2) {
			o.Fail(idx, "rewrite-differs", fmt.Sprintf("WriteTTF(tables read back) differs from the file read: %d vs %d bytes", len(out2), len(out)))
		}
	}
}

func c19StrictlySorted(ts []c19Table) bool {
	for i := 1; i < len(ts); i++ {
		if ts[i-1].Tag >= ts[i].Tag {
			return false
		}
	}
	return true
}

func bucket(n int) int {
	switch {
	case n <= 8:
		return n
	case n <= 64:
		return 64
	case n <= 1024:
		return 1024
	default:
		return 1 << 20
	}
}
