package main

// c09tab: correspondence driver of Model/TableIndex.v (C09, second batch): the 'name' table (ParseName +
// decodeRecord), hhea/hmtx (loadHVtmx + Hmtx.Advance + getSideBearing) and cmap subtables of format 6, 10, 12, 13
// (ParseCmapSubtable + newCmapN + Lookup), on structured then corrupted byte strings.

import (
	"encoding/binary"
	"encoding/json"
	"fmt"

	"github.com/go-text/typesetting/font"
	"github.com/go-text/typesetting/font/opentype/tables"

	"verifharness/internal/vh"
)

type c09tInput struct {
	Kind      string  `json:"kind"` // name, hmtx, cmap
	Src       []byte  `json:"src"`
	Hhea      []byte  `json:"hhea,omitempty"`
	NumGlyphs int     `json:"num_glyphs,omitempty"`
	Gids      []int64 `json:"gids,omitempty"`
	Runes     []int64 `json:"runes,omitempty"`
	Class     string  `json:"class"`
	// kind aat: format 0 / 8 / 10: Values (+ First); 2: Segs [last, first, value]; 4: Segs [last, first] + SegValues; 6: Segs [glyph, value]
	Format    int        `json:"format,omitempty"`
	First     int        `json:"first,omitempty"`
	Values    []uint16   `json:"values,omitempty"`
	Segs      [][]uint16 `json:"segs,omitempty"`
	SegValues [][]uint16 `json:"seg_values,omitempty"`
}

func init() {
	drivers["c09tab"] = &driver{
		header: "From TV Require Import Check.C09tab.",
		shard:  100,
		n: func(tier string) int {
			if tier == "quick" {
				return 900
			}
			return 20000
		},
		decode: func(raw json.RawMessage) (any, error) {
			var in c09tInput
			err := json.Unmarshal(raw, &in)
			return in, err
		},
		gen: c09tGen,
		run: c09tRun,
	}
}

var c09tEdge16 = []int{0, 1, 2, 6, 12, 0x7fff, 0x8000, 0xfffe, 0xffff}
var c09tEdge32 = []uint32{0, 1, 2, 12, 16, 0x7fffffff, 0x80000000, 0xfffffffe, 0xffffffff, 0x10ffff, 0x110000}

// c09tCorrupt applies one of the generic corruptions to a structured table.
func c09tCorrupt(r *vh.Rand, b []byte) ([]byte, string) {
	b = append([]byte(nil), b...)
	switch k := r.Intn(10); {
	case k < 4 || len(b) == 0:
		return b, "valid"
	case k < 6: // truncation
		return b[:r.Intn(len(b)+1)], "truncated"
	case k < 8: // one aligned 16-bit field
		if len(b) >= 2 {
			p := 2 * r.Intn(len(b)/2)
			binary.BigEndian.PutUint16(b[p:], uint16(c09tEdge16[r.Intn(len(c09tEdge16))]))
		}
		return b, "field16"
	case k < 9: // bit flips
		for j, n := 0, r.Range(1, 3); j < n; j++ {
			p := r.Intn(len(b))
			b[p] ^= 1 << uint(r.Intn(8))
		}
		return b, "flips"
	}
	return append(b, r.Bytes(r.Range(1, 5))...), "longer"
}

func c09tGenName(r *vh.Rand) c09tInput {
	n := r.Range(0, 5)
	var strs []byte
	type rec struct{ p, e, l, id, length, off int }
	var recs []rec
	class := "valid"
	for i := 0; i < n; i++ {
		var p, e int
		switch r.Intn(6) {
		case 0:
			p, e = 0, r.Intn(5)
		case 1:
			p, e = 3, []int{0, 1, 10, 2}[r.Intn(4)]
		case 2:
			p, e = 1, r.Intn(2)
		case 3:
			p, e = 3, 1
		default:
			p, e = r.Range(2, 5), r.Intn(3)
		}
		l := r.Range(0, 6)
		if p == 0 || p == 3 {
			if r.Chance(85) {
				l = 2 * r.Range(0, 4)
			}
		}
		off := len(strs)
		for j := 0; j < l; j++ {
			c := byte(r.Range(0x20, 0x7e))
			if (p == 0 || p == 3) && j%2 == 0 {
				c = byte([]int{0, 0, 0, 0x04, 0x30, 0xd8, 0xdc}[r.Intn(7)])
			}
			if r.Chance(6) {
				c = byte(r.Intn(256))
			}
			strs = append(strs, c)
		}
		if r.Chance(15) && off > 0 { // shared / overlapping strings
			off = r.Intn(off + 1)
		}
		rc := rec{p, e, r.Intn(3) * 0x409, r.Range(0, 7), l, off}
		switch r.Intn(14) {
		case 0:
			rc.length = len(strs) - rc.off + r.Range(1, 3)
			class = "beyond"
		case 1:
			rc.length = len(strs) - rc.off // exactly to the end
			if rc.length < 0 {
				rc.length = 0
			}
			class = "to-end"
		case 2:
			rc.off = c09tEdge16[r.Intn(len(c09tEdge16))]
			class = "offset-edge"
		case 3:
			rc.length = c09tEdge16[r.Intn(len(c09tEdge16))]
			class = "length-edge"
		case 4:
			rc.off, rc.length = len(strs), 0
			class = "empty-at-end"
		}
		recs = append(recs, rc)
	}
	count := n
	strOff := 6 + 12*n
	switch r.Intn(12) {
	case 0:
		count = n + r.Range(1, 3)
		class = "count+"
	case 1:
		count = c09tEdge16[r.Intn(len(c09tEdge16))]
		class = "count-edge"
	case 2:
		strOff = 0
		class = "no-strings"
	case 3:
		strOff = 6 + 12*n + len(strs) // strings exactly at the end: empty
		class = "strings-at-end"
	case 4:
		strOff = 6 + 12*n + len(strs) + r.Range(1, 3)
		class = "strings-beyond"
	case 5:
		strOff = r.Intn(6 + 12*n + 1) // inside the header or the records
		class = "strings-in-records"
	}
	b := append(be16(r.Intn(2)), be16(count&0xffff)...)
	b = append(b, be16(strOff&0xffff)...)
	for _, rc := range recs {
		for _, v := range []int{rc.p, rc.e, rc.l, rc.id, rc.length, rc.off} {
			b = append(b, be16(v&0xffff)...)
		}
	}
	b = append(b, strs...)
	b, c2 := c09tCorrupt(r, b)
	return c09tInput{Kind: "name", Src: b, Class: class + "/" + c2}
}

func c09tGenHmtx(r *vh.Rand) c09tInput {
	ng := r.Range(0, 7)
	nlong := r.Range(0, ng+1)
	class := "valid"
	switch r.Intn(10) {
	case 0:
		nlong = ng + r.Range(1, 3)
		class = "long>glyphs"
	case 1:
		nlong = 0
		class = "no-long"
	case 2:
		nlong = []int{0xffff, 0x8000, 0x7fff}[r.Intn(3)]
		class = "long-edge"
	}
	hhea := r.Bytes(36)
	binary.BigEndian.PutUint16(hhea[34:], uint16(nlong))
	switch r.Intn(12) {
	case 0:
		hhea = hhea[:r.Intn(36)]
		class = "hhea-short"
	case 1:
		hhea = append(hhea, r.Bytes(2)...)
	}
	sb := ng - nlong
	if sb < 0 {
		sb = 0
	}
	size := 4*nlong + 2*sb
	if size > 64 {
		size = 64
	}
	switch r.Intn(8) {
	case 0:
		size--
		class += "+short1"
	case 1:
		size = r.Intn(size + 1)
		class += "+short"
	case 2:
		size += r.Range(1, 4)
	case 3:
		size = 4 * nlong // no side bearing at all
		if size > 64 {
			size = 64
		}
	}
	if size < 0 {
		size = 0
	}
	src := r.Bytes(size)
	if r.Chance(10) {
		ng = []int{0, 1, 0xffff}[r.Intn(3)]
	}
	gids := []int64{0, int64(nlong) - 1, int64(nlong), int64(ng) - 1, int64(ng), int64(ng) + 1, 0xffff, 0xffffffff, int64(r.Intn(8))}
	var gs []int64
	for _, g := range gids {
		if g >= 0 {
			gs = append(gs, g)
		}
	}
	return c09tInput{Kind: "hmtx", Src: src, Hhea: hhea, NumGlyphs: ng, Gids: gs, Class: class}
}

func c09tGenCmap(r *vh.Rand) c09tInput {
	var b []byte
	var runes []int64
	class := "valid"
	format := []int{6, 10, 12, 13}[r.Intn(4)]
	switch format {
	case 6, 10:
		first := uint32(r.Range(0, 300))
		if r.Chance(25) {
			first = c09tEdge32[r.Intn(len(c09tEdge32))]
			class = "first-edge"
		}
		n := r.Range(0, 6)
		count := uint32(n)
		switch r.Intn(10) {
		case 0:
			count = uint32(n + r.Range(1, 3))
			class = "count+"
		case 1:
			count = c09tEdge32[r.Intn(len(c09tEdge32))]
			class = "count-edge"
		}
		if format == 6 {
			b = append(be16(6), be16(10+2*n)...)
			b = append(b, be16(0)...)
			b = append(b, be16(int(first&0xffff))...)
			b = append(b, be16(int(count&0xffff))...)
			first &= 0xffff
		} else {
			b = append(be16(10), be16(0)...)
			b = append(b, be32(uint32(20+2*n))...)
			b = append(b, be32(0)...)
			b = append(b, be32(first)...)
			b = append(b, be32(count)...)
		}
		for i := 0; i < n; i++ {
			b = append(b, be16(r.Intn(0x10000))...)
		}
		f := int64(int32(first))
		runes = []int64{f - 1, f, f + 1, f + int64(n) - 1, f + int64(n), int64(first), 0, -1, 0x7fffffff, -0x80000000, 0x10ffff, int64(r.Intn(400))}
	default:
		n := r.Range(0, 5)
		count := uint32(n)
		switch r.Intn(10) {
		case 0:
			count = uint32(n + r.Range(1, 3))
			class = "count+"
		case 1:
			count = c09tEdge32[r.Intn(len(c09tEdge32))]
			class = "count-edge"
		}
		b = append(be16(format), be16(0)...)
		b = append(b, be32(uint32(16+12*n))...)
		b = append(b, be32(0)...)
		b = append(b, be32(count)...)
		cur := uint32(r.Range(0, 80))
		runes = []int64{0, -1, 0x10ffff, 0x110000, 0x7fffffff, -0x80000000}
		for i := 0; i < n; i++ {
			start := cur + uint32(r.Range(0, 20))
			end := start + uint32(r.Range(0, 12))
			gl := uint32(r.Intn(0x10000))
			switch r.Intn(16) {
			case 0:
				start, end = end+1, start // end before start
				class = "reversed"
			case 1:
				if cur >= 4 {
					start = cur - uint32(r.Range(1, 4)) // overlaps the previous group
				}
				class = "overlap"
			case 2:
				end = c09tEdge32[r.Intn(len(c09tEdge32))]
				class = "end-edge"
			case 3:
				start = c09tEdge32[r.Intn(len(c09tEdge32))]
				class = "start-edge"
			case 4:
				gl = c09tEdge32[r.Intn(len(c09tEdge32))]
				class = "glyph-edge"
			}
			b = append(b, be32(start)...)
			b = append(b, be32(end)...)
			b = append(b, be32(gl)...)
			runes = append(runes, int64(int32(start)), int64(int32(start))-1, int64(int32(end)), int64(int32(end))+1, int64(int32(start+(end-start)/2)))
			cur = end + 1
		}
		runes = append(runes, int64(r.Intn(200)))
	}
	b, c2 := c09tCorrupt(r, b)
	var rs []int64
	for _, x := range runes {
		if x >= -0x80000000 && x <= 0x7fffffff {
			rs = append(rs, x)
		}
	}
	return c09tInput{Kind: "cmap", Src: b, Runes: rs, Class: fmt.Sprintf("f%d/%s/%s", format, class, c2)}
}

func c09tGenAat(r *vh.Rand) c09tInput {
	in := c09tInput{Kind: "aat", Format: []int{0, 2, 4, 6, 8, 10}[r.Intn(6)], Class: "valid"}
	u16s := func(n int) []uint16 {
		out := make([]uint16, n)
		for i := range out {
			out[i] = uint16(r.Intn(0x10000))
		}
		return out
	}
	gids := []int64{0, 1, 0xffff, 0xfffe, int64(r.Intn(40))}
	switch in.Format {
	case 0:
		in.Values = u16s(r.Range(0, 6))
		gids = append(gids, int64(len(in.Values))-1, int64(len(in.Values)))
	case 8, 10:
		in.First = r.Range(0, 30)
		if r.Chance(30) {
			in.First = []int{0xffff, 0xfffe, 0xfffd, 0x8000}[r.Intn(4)]
			in.Class = "first-edge"
		}
		in.Values = u16s(r.Range(0, 6))
		f := int64(in.First)
		gids = append(gids, f-1, f, f+int64(len(in.Values))-1, f+int64(len(in.Values)), (f+int64(len(in.Values)))&0xffff)
	default:
		cur := r.Range(0, 10)
		for i, n := 0, r.Range(0, 5); i < n; i++ {
			first := cur + r.Range(0, 6)
			last := first + r.Range(0, 5)
			switch r.Intn(12) {
			case 0:
				first, last = last+1, first
				in.Class = "reversed"
			case 1:
				last = 0xffff
				in.Class = "last-edge"
			case 2:
				if cur > 3 {
					first = cur - 3
				}
				in.Class = "overlap"
			}
			gids = append(gids, int64(first)-1, int64(first), int64(last), int64(last)+1, int64(first+last)/2)
			switch in.Format {
			case 2:
				in.Segs = append(in.Segs, []uint16{uint16(last), uint16(first), uint16(r.Intn(0x10000))})
			case 4:
				in.Segs = append(in.Segs, []uint16{uint16(last), uint16(first)})
				nv := last - first + 1
				if nv < 0 {
					nv = 0
				}
				switch r.Intn(6) {
				case 0:
					nv = 0 // null offset to the values
					in.Class = "no-values"
				case 1:
					nv = r.Intn(nv + 1)
					in.Class = "short-values"
				}
				if nv < 0 || nv > 64 {
					nv = 0
				}
				in.SegValues = append(in.SegValues, u16s(nv))
			case 6:
				in.Segs = append(in.Segs, []uint16{uint16(first), uint16(r.Intn(0x10000))})
			}
			cur = last + 1
		}
	}
	for _, g := range gids {
		if g >= 0 && g <= 0xffff {
			in.Gids = append(in.Gids, g)
		}
	}
	return in
}

func c09tGen(r *vh.Rand, tier string, n int, emit func(any)) {
	// 5034881: a format 4 segment whose values offset is null
	emit(c09tInput{Kind: "aat", Format: 4, Segs: [][]uint16{{5, 3}}, SegValues: [][]uint16{nil}, Gids: []int64{2, 3, 4, 5, 6}, Class: "f5034881"})
	// fixed witnesses of earlier repairs: Hmtx.Advance with no long metric (814b335), cmap 10 start code above 0x7FFFFFFF (365cf88)
	hhea := make([]byte, 36)
	emit(c09tInput{Kind: "hmtx", Src: []byte{0, 1, 0, 2}, Hhea: hhea, NumGlyphs: 2, Gids: []int64{0, 1, 2}, Class: "f814b335"})
	emit(c09tInput{Kind: "cmap", Src: []byte{0, 10, 0, 0, 0, 0, 0, 22, 0, 0, 0, 0, 0xff, 0xff, 0xff, 0xf0, 0, 0, 0, 1, 0, 7}, Runes: []int64{0x7ffffff0, -16, -15, 0}, Class: "f365cf88"})
	for i := 0; i < n; i++ {
		switch i % 4 {
		case 0:
			emit(c09tGenName(r))
		case 1:
			emit(c09tGenHmtx(r))
		case 2:
			emit(c09tGenAat(r))
		default:
			emit(c09tGenCmap(r))
		}
	}
}

// c09tDecoder replicates the choice of Name.decodeRecord (0 UTF-16, 1 Mac Roman, 2 bytes); a mistake here shows as
// a correspondence failure.
func c09tDecoder(p, e uint16) int {
	if p == 0 || (p == 3 && (e == 1 || e == 10 || e == 0)) {
		return 0
	}
	if p == 1 && e == 0 {
		return 1
	}
	return 2
}

func c09tRun(o *vh.Out, inAny any) {
	in := inAny.(c09tInput)
	var panicked any
	status := int64(0)
	var coq, key string
	switch in.Kind {
	case "name":
		var recs []tables.VerifNameRecord
		var err error
		func() {
			defer func() { panicked = recover() }()
			recs, err = tables.VerifNameRecords(in.Src)
		}()
		if panicked != nil {
			status = 3
		} else if err != nil {
			status = 1
		}
		var rl, vl []string
		if status == 0 {
			for _, rc := range recs {
				rl = append(rl, vh.IntList([]int{int(rc.Platform), int(rc.Encoding), int(rc.Language), int(rc.Name), int(rc.Length), int(rc.Offset)}))
				var v []int64
				if c09tDecoder(rc.Platform, rc.Encoding) == 2 {
					for _, c := range []byte(rc.Value) {
						v = append(v, int64(c))
					}
				} else {
					for _, c := range []rune(rc.Value) {
						v = append(v, int64(c))
					}
				}
				vl = append(vl, vh.ZList(v))
			}
		}
		coq = vh.App("CName", vh.BytesLit(in.Src), vh.Z(status), vh.List(rl), vh.List(vl))
		if len(in.Src) >= 6 {
			key = coq
		}
	case "hmtx":
		var (
			nm, nl   int
			adv, sbs []int16
			err      error
		)
		gids := make([]uint32, len(in.Gids))
		for i, g := range in.Gids {
			gids[i] = uint32(g)
		}
		func() {
			defer func() { panicked = recover() }()
			nm, nl, adv, sbs, err = font.VerifHmtxQuery(in.Hhea, in.Src, in.NumGlyphs, gids)
		}()
		if panicked != nil {
			status = 3
		} else if err != nil {
			status = 1
		}
		var a, s []int64
		if status == 0 {
			for i := range adv {
				a = append(a, int64(adv[i]))
				s = append(s, int64(sbs[i]))
			}
		}
		coq = vh.App("CHmtx", vh.BytesLit(in.Hhea), vh.BytesLit(in.Src), vh.Zi(in.NumGlyphs), vh.ZList(in.Gids), vh.Z(status),
			vh.Zi(nm), vh.Zi(nl), vh.ZList(a), vh.ZList(s))
		if len(in.Hhea) >= 36 {
			key = coq
		}
	case "cmap":
		var (
			size int
			gs   []font.GID
			oks  []bool
			err  error
		)
		runes := make([]rune, len(in.Runes))
		for i, x := range in.Runes {
			runes[i] = rune(x)
		}
		func() {
			defer func() { panicked = recover() }()
			size, gs, oks, err = font.VerifCmapSubtableLookup(in.Src, runes)
		}()
		if panicked != nil {
			status = 3
		} else if err != nil {
			status = 1
		}
		var res []string
		if status == 0 {
			for i := range gs {
				if oks[i] {
					res = append(res, vh.Some(vh.Z(int64(gs[i]))))
				} else {
					res = append(res, "None")
				}
			}
		}
		coq = vh.App("CCmap", vh.BytesLit(in.Src), vh.ZList(in.Runes), vh.Z(status), vh.Zi(size), vh.List(res))
		if len(in.Src) >= 2 {
			key = coq
		}
	case "aat":
		var lk interface {
			Class(tables.GlyphID) (uint16, bool)
		}
		var coqL string
		segs := func(width int) []string {
			var out []string
			for i, s := range in.Segs {
				if len(s) < width {
					continue
				}
				switch in.Format {
				case 2:
					out = append(out, vh.App("mkSeg2", vh.Zi(int(s[0])), vh.Zi(int(s[1])), vh.Zi(int(s[2]))))
				case 4:
					var vs []int64
					if i < len(in.SegValues) {
						for _, v := range in.SegValues[i] {
							vs = append(vs, int64(v))
						}
					}
					out = append(out, vh.App("mkSeg4", vh.Zi(int(s[0])), vh.Zi(int(s[1])), vh.ZList(vs)))
				case 6:
					out = append(out, vh.App("mkRec6", vh.Zi(int(s[0])), vh.Zi(int(s[1]))))
				}
			}
			return out
		}
		var vals []int64
		for _, v := range in.Values {
			vals = append(vals, int64(v))
		}
		switch in.Format {
		case 0:
			lk, coqL = tables.AATLoopkup0{Values: in.Values}, vh.App("L0", vh.ZList(vals))
		case 8:
			lk, coqL = tables.AATLoopkup8{AATLoopkup8Data: tables.AATLoopkup8Data{FirstGlyph: tables.GlyphID(in.First), Values: in.Values}}, vh.App("L8", vh.Zi(in.First&0xffff), vh.ZList(vals))
		case 10:
			lk, coqL = tables.AATLoopkup10{FirstGlyph: tables.GlyphID(in.First), Values: in.Values}, vh.App("L8", vh.Zi(in.First&0xffff), vh.ZList(vals))
		case 2:
			l := tables.AATLoopkup2{}
			for _, s := range in.Segs {
				if len(s) >= 3 {
					l.Records = append(l.Records, tables.LookupRecord2{LastGlyph: tables.GlyphID(s[0]), FirstGlyph: tables.GlyphID(s[1]), Value: s[2]})
				}
			}
			lk, coqL = l, vh.App("L2", vh.List(segs(3)))
		case 4:
			l := tables.AATLoopkup4{}
			for i, s := range in.Segs {
				if len(s) >= 2 {
					rec := tables.AATLookupRecord4{LastGlyph: tables.GlyphID(s[0]), FirstGlyph: tables.GlyphID(s[1])}
					if i < len(in.SegValues) {
						rec.Values = in.SegValues[i]
					}
					l.Records = append(l.Records, rec)
				}
			}
			lk, coqL = l, vh.App("L4", vh.List(segs(2)))
		case 6:
			var pairs [][2]uint16
			for _, s := range in.Segs {
				if len(s) >= 2 {
					pairs = append(pairs, [2]uint16{s[0], s[1]})
				}
			}
			lk, coqL = tables.VerifAATLookup6(pairs), vh.App("L6", vh.List(segs(2)))
		default:
			return
		}
		var res []string
		func() {
			defer func() { panicked = recover() }()
			for _, g := range in.Gids {
				if v, ok := lk.Class(tables.GlyphID(g)); ok {
					res = append(res, vh.Some(vh.Zi(int(v))))
				} else {
					res = append(res, "None")
				}
			}
		}()
		if panicked != nil {
			status, res = 3, nil
		}
		coq = vh.App("CAat", coqL, vh.ZList(in.Gids), vh.Z(status), vh.List(res))
		key = coq
	default:
		return
	}
	// a panic is reported by the oracle of Check/C09tab.v (status 3)
	o.Add(in, coq, key, "kind="+in.Kind, "class="+in.Class, fmt.Sprintf("%s-status=%d", in.Kind, status))
}
