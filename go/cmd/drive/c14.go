package main

import (
	"bytes"
	"encoding/json"
	"fmt"
	"io"
	"log"
	"sort"
	"strings"

	"github.com/go-text/typesetting/font"
	"github.com/go-text/typesetting/fontscan"
	"github.com/go-text/typesetting/language"

	"verifharness/internal/vh"
)

// c14Op is one operation on the FontMap under test.
//
//	k = "face"    AddFace of a synthetic face (cmap Cmap) with Location{File, Index} and Description{Family, aspect}
//	k = "font"    AddFont of the corpus file Path with fileID File and family override Family
//	k = "query"   SetQuery{Families, aspect}
//	k = "script"  SetScript(Script)
//	k = "size"    SetRuneCacheSize(Size)
//	k = "resolve" ResolveFace(Rune)
type c14Op struct {
	K        string   `json:"k"`
	Cmap     []rune   `json:"cmap,omitempty"`
	Path     string   `json:"path,omitempty"`
	File     string   `json:"file,omitempty"`
	Index    uint16   `json:"index,omitempty"`
	Family   string   `json:"family,omitempty"`
	Families []string `json:"families,omitempty"`
	Style    uint8    `json:"style,omitempty"`
	Weight   int      `json:"weight,omitempty"`
	Stretch8 int      `json:"stretch8,omitempty"` // stretch in 1/8
	Script   uint32   `json:"script,omitempty"`
	Size     int      `json:"size,omitempty"`
	Rune     rune     `json:"rune,omitempty"`
}

type c14Input struct {
	Ops []c14Op `json:"ops"`
}

func init() {
	drivers["c14"] = &driver{
		header: "From TV Require Import Check.C14.",
		shard:  60,
		n: func(tier string) int {
			if tier == "quick" {
				return 1500
			}
			return 20000
		},
		decode: func(raw json.RawMessage) (any, error) {
			var in c14Input
			err := json.Unmarshal(raw, &in)
			return in, err
		},
		gen: c14Gen,
		run: c14Run,
	}
}

// synthetic cmap: an increasing list of runes
type c14Cmap []rune

type c14CmapIter struct {
	c c14Cmap
	i int
}

func (it *c14CmapIter) Next() bool             { it.i++; return it.i <= len(it.c) }
func (it *c14CmapIter) Char() (rune, font.GID) { return it.c[it.i-1], font.GID(it.i) }
func (c c14Cmap) Iter() font.CmapIter          { return &c14CmapIter{c: c} }
func (c c14Cmap) Lookup(r rune) (font.GID, bool) {
	for i, x := range c {
		if x == r {
			return font.GID(i + 1), true
		}
	}
	return 0, false
}

// the runes the cases resolve: Latin, Greek, Cyrillic, Arabic, Han, emoji, common, unassigned
var c14Universe = []rune{'a', 'b', 0xE9, '1', ' ', 0x391, 0x411, 0x627, 0x4E2D, 0x1F600, 0x10FFFF, 0}

var c14FaceFamilies = []string{
	"Arial", "Arimo", "Liberation Sans", "Helvetica", "DejaVu Sans", "DejaVu Sans Mono", "Noto Sans", "Noto Serif",
	"Noto Naskh Arabic", "Noto Sans Arabic UI", "Times New Roman", "Tinos", "Times", "Calibri", "Carlito", "xyz", "XYZ Mono",
	"Noto Color Emoji", "serif", "", "Courier New", "Inconsolata", "monospace", "XITS Math", "Verdana",
}
var c14QueryFamilies = []string{
	"serif", "sans-serif", "monospace", "emoji", "math", "cursive", "fantasy", "Serif", "ARIAL", "arial", "Arial", "Nothing",
	"Calibri", "Times New Roman", "xyz", "XYZ mono", "", "Helvetica", "Noto Sans", "DejaVu Sans", "Courier New", "Roboto",
	"DejaVu Sans Mono", "Tinos", "Noto Color Emoji",
}
var c14Scripts = []language.Script{0, language.Latin, language.Arabic, language.Cyrillic, language.Han, language.Greek, language.Unknown, language.Common}
var c14Files = []string{"a.ttf", "b.otf", "c.TTC", "d", "e.ttf", "f.woff", "g.ttf", "h.otf"}
var c14Corpus = []string{
	"common/Roboto-BoldItalic.ttf", "common/DejaVuSansMono.ttf", "common/NotoSansArabic.ttf", "common/Lmmono-italic.otf",
	"toys/3cmaps.ttc", "common/Go-Mono-Bold-Italic.ttf", "common/OldaniaADFStd-Bold.otf",
}
var c14Weights = []int{0, 100, 300, 400, 450, 500, 600, 700, 900}
var c14Stretches = []int{0, 4, 6, 7, 8, 9, 10, 16}

func c14Gen(r *vh.Rand, tier string, n int, emit func(any)) {
	aspect := func(op *c14Op) {
		if r.Chance(55) {
			return // zero aspect
		}
		op.Style = uint8(r.Intn(3))
		op.Weight = c14Weights[r.Intn(len(c14Weights))]
		op.Stretch8 = c14Stretches[r.Intn(len(c14Stretches))]
	}
	for i := 0; i < n; i++ {
		// per-case pools, small so that keys repeat
		nfam := r.Range(1, 4)
		famPool := make([]string, nfam)
		for j := range famPool {
			famPool[j] = c14FaceFamilies[r.Intn(len(c14FaceFamilies))]
		}
		runes := make([]rune, r.Range(1, 5))
		for j := range runes {
			runes[j] = c14Universe[r.Intn(len(c14Universe))]
		}
		nq := r.Range(1, 3)
		queries := make([]c14Op, nq)
		for j := range queries {
			q := c14Op{K: "query"}
			for k := r.Range(0, 3); k > 0; k-- {
				if r.Chance(35) { // a family present in the database, possibly in another spelling
					f := famPool[r.Intn(len(famPool))]
					if r.Chance(30) {
						f = strings.ToUpper(f)
					}
					q.Families = append(q.Families, f)
				} else {
					q.Families = append(q.Families, c14QueryFamilies[r.Intn(len(c14QueryFamilies))])
				}
			}
			aspect(&q)
			queries[j] = q
		}
		forceRune := rune(-1)
		if r.Chance(12) { // family lists whose concatenations coincide: they share the lru key hash
			coll := [][]string{{"xy", "z"}, {"x", "yz"}, {"xyz"}, {"", "xyz"}, {"xyz", ""}, nil, {""}, {"", ""}}
			asp := queries[0]
			for j := range queries {
				queries[j] = c14Op{K: "query", Families: coll[r.Intn(len(coll))], Style: asp.Style, Weight: asp.Weight, Stretch8: asp.Stretch8}
			}
			famPool = []string{"x", "xy", "z", "yz", "XY Z"}
			runes = runes[:1]
			forceRune = runes[0]
		}
		scripts := make([]language.Script, r.Range(1, 3))
		for j := range scripts {
			scripts[j] = c14Scripts[r.Intn(len(c14Scripts))]
		}
		face := func() c14Op {
			if r.Chance(8) && tier != "search" {
				op := c14Op{K: "font", Path: c14Corpus[r.Intn(len(c14Corpus))], File: c14Files[r.Intn(len(c14Files))]}
				if r.Chance(50) {
					op.Family = famPool[r.Intn(len(famPool))]
				}
				return op
			}
			op := c14Op{K: "face", Family: famPool[r.Intn(len(famPool))]}
			for _, u := range c14Universe {
				if r.Chance(35) || u == forceRune {
					op.Cmap = append(op.Cmap, u)
				}
			}
			sort.Slice(op.Cmap, func(a, b int) bool { return op.Cmap[a] < op.Cmap[b] })
			op.File = c14Files[r.Intn(len(c14Files))]
			if r.Chance(92) { // mostly distinct locations
				op.Index = uint16(r.Intn(60000))
			}
			aspect(&op)
			return op
		}
		var ops []c14Op
		sizes := []int{0, 1, 2, 3, 4096}
		if r.Chance(70) {
			ops = append(ops, c14Op{K: "size", Size: sizes[r.Intn(len(sizes))]})
		}
		for k := r.Range(0, 4); k > 0; k-- {
			ops = append(ops, face())
		}
		if r.Chance(7) && forceRune < 0 {
			// a large database with many equally ranked footprints (same families, same aspect, every file kind, all
			// covering the rune asked for): the answer must be the FIRST added among the best, whatever the sort does
			// with more than a dozen elements
			forceRune = runes[0]
			for k := r.Range(13, 34); k > 0; k-- {
				op := face()
				if op.K == "face" {
					op.Family = famPool[k%len(famPool)]
					op.Style, op.Weight, op.Stretch8 = 0, 0, 0
					op.File = c14Files[k%len(c14Files)]
				}
				ops = append(ops, op)
			}
			q := c14Op{K: "query", Families: append([]string(nil), famPool...)}
			ops = append(ops, q, c14Op{K: "resolve", Rune: runes[0]})
		}
		for k := r.Range(3, 26); k > 0; k-- {
			switch x := r.Intn(100); {
			case x < 55:
				ops = append(ops, c14Op{K: "resolve", Rune: runes[r.Intn(len(runes))]})
			case x < 70:
				ops = append(ops, queries[r.Intn(len(queries))])
			case x < 82:
				ops = append(ops, c14Op{K: "script", Script: uint32(scripts[r.Intn(len(scripts))])})
			case x < 93:
				ops = append(ops, face())
			default:
				ops = append(ops, c14Op{K: "size", Size: sizes[r.Intn(len(sizes))]})
			}
		}
		emit(c14Input{Ops: ops})
	}
	// deterministic scope: two queries whose family lists concatenate identically (they share the rune-cache key
	// hash) but select different faces, asked alternately on one rune, for every pair of such lists and cache size
	coll := [][]string{{"xy", "z"}, {"x", "yz"}, {"xyz"}, {"z", "xy"}, {"yz", "x"}}
	u := c14Universe[0]
	for _, size := range []int{1, 2, 4096} {
		for a := range coll {
			for b := range coll {
				if a == b {
					continue
				}
				ops := []c14Op{{K: "size", Size: size}}
				for k, fam := range []string{"x", "xy", "z", "yz", "xyz"} {
					ops = append(ops, c14Op{K: "face", Family: fam, Cmap: []rune{u}, File: c14Files[0], Index: uint16(100 + k)})
				}
				qa := c14Op{K: "query", Families: coll[a]}
				qb := c14Op{K: "query", Families: coll[b]}
				res := c14Op{K: "resolve", Rune: u}
				ops = append(ops, qa, res, qb, res, qa, res, qb, res)
				emit(c14Input{Ops: ops})
			}
		}
	}
}

var c14FileCache = map[string][]byte{}

func c14CorpusBytes(path string) []byte {
	if b, ok := c14FileCache[path]; ok {
		return b
	}
	b, err := fontscan.VerifCorpusFile(path)
	if err != nil {
		panic(err)
	}
	c14FileCache[path] = b
	return b
}

// interning tables of one case
type c14Intern struct {
	fams   map[string]int
	famStr []string
	locs   map[fontscan.Location]int
	faces  map[*font.Face]int
}

func (t *c14Intern) fam(s string) int {
	if id, ok := t.fams[s]; ok {
		return id
	}
	id := len(t.famStr)
	t.fams[s] = id
	t.famStr = append(t.famStr, s)
	return id
}
func (t *c14Intern) loc(l fontscan.Location) int {
	if id, ok := t.locs[l]; ok {
		return id
	}
	id := len(t.locs)
	t.locs[l] = id
	return id
}
func (t *c14Intern) face(f *font.Face) string {
	if f == nil {
		return "None"
	}
	id, ok := t.faces[f]
	if !ok {
		id = len(t.faces)
		t.faces[f] = id
	}
	return vh.Some(vh.Zi(id))
}
func (t *c14Intern) faceID(f *font.Face) int {
	id, ok := t.faces[f]
	if !ok {
		id = len(t.faces)
		t.faces[f] = id
	}
	return id
}

func c14AspectTerm(style uint8, weight, stretch8 int) string {
	return vh.App("mkAspect", vh.Zi(int(style)), vh.Zi(weight), vh.Zi(stretch8))
}

// exact grid check of a float32 aspect
func c14AspectOf(a font.Aspect) (uint8, int, int) {
	w, s := int(a.Weight), int(a.Stretch*8)
	if font.Weight(w) != a.Weight || font.Stretch(s)/8 != a.Stretch {
		panic(fmt.Sprintf("aspect outside the modelled grid: %v", a))
	}
	return uint8(a.Style), w, s
}

func c14Nats(xs []int) string {
	e := make([]string, len(xs))
	for i, x := range xs {
		e[i] = fmt.Sprintf("%d%%nat", x)
	}
	return vh.List(e)
}

func c14Run(o *vh.Out, inAny any) {
	in := inAny.(c14Input)
	t := &c14Intern{fams: map[string]int{}, locs: map[fontscan.Location]int{}, faces: map[*font.Face]int{}}
	t.fam("")
	fm := fontscan.NewFontMap(log.New(io.Discard, "", 0))

	var opTerms, answers, obs []string
	famLists := [][]string{nil}
	scriptsUsed := []language.Script{0}
	var panicked any
	nAdd, nResolve, nHitsPossible := 0, 0, 0
	seenKeys := map[string]bool{}
	var curQ string
	var curS uint32

	fpTerm := func(fp fontscan.VerifFootprint) (runes, scripts string) {
		var rs []int64
		for _, u := range c14Universe {
			if fp.Contains(u) {
				rs = append(rs, int64(u))
			}
		}
		ss := make([]int64, len(fp.Scripts))
		for i, s := range fp.Scripts {
			ss[i] = int64(s)
		}
		return vh.ZList(rs), vh.ZList(ss)
	}

	func() {
		defer func() { panicked = recover() }()
		for _, op := range in.Ops {
			switch op.K {
			case "face", "font":
				before := len(fm.VerifDatabase())
				var given *font.Face
				if op.K == "face" {
					given = &font.Face{Font: &font.Font{Cmap: c14Cmap(op.Cmap)}}
					md := font.Description{Family: op.Family, Aspect: font.Aspect{Style: font.Style(op.Style), Weight: font.Weight(op.Weight), Stretch: font.Stretch(op.Stretch8) / 8}}
					fm.AddFace(given, fontscan.Location{File: op.File, Index: op.Index}, md)
				} else {
					if err := fm.AddFont(bytes.NewReader(c14CorpusBytes(op.Path)), op.File, op.Family); err != nil {
						panic(err)
					}
				}
				db := fm.VerifDatabase()
				var added []string
				for _, fp := range db[before:] {
					runes, scripts := fpTerm(fp)
					var famID int
					var asp string
					if op.K == "face" {
						famID = t.fam(op.Family)
						asp = c14AspectTerm(op.Style, op.Weight, op.Stretch8)
						if fp.Face != given {
							panic("faceCache does not hold the face just added")
						}
					} else {
						if op.Family != "" {
							famID = t.fam(op.Family)
						} else {
							famID = t.fam(fp.Family)
						}
						asp = c14AspectTerm(c14AspectOf(fp.Aspect))
					}
					added = append(added, vh.App("mkAdded", vh.Zi(t.faceID(fp.Face)), vh.Zi(t.loc(fp.Location)), vh.Zi(famID), asp,
						runes, scripts, vh.Bool(fp.Mono), vh.Bool(fp.TTF)))
				}
				opTerms = append(opTerms, vh.App("OpAdd", vh.List(added)))
				nAdd++
				seenKeys = map[string]bool{}
			case "query":
				ids := make([]int64, len(op.Families))
				for i, f := range op.Families {
					ids[i] = int64(t.fam(f))
				}
				fams := op.Families
				if len(fams) == 0 {
					fams = []string{""}
				}
				famLists = append(famLists, fams)
				fm.SetQuery(fontscan.Query{Families: op.Families, Aspect: font.Aspect{Style: font.Style(op.Style), Weight: font.Weight(op.Weight), Stretch: font.Stretch(op.Stretch8) / 8}})
				opTerms = append(opTerms, vh.App("OpSetQuery", vh.App("mkQuery", vh.ZList(ids), c14AspectTerm(op.Style, op.Weight, op.Stretch8))))
				curQ = fmt.Sprint(op.Families, op.Style, op.Weight, op.Stretch8)
			case "script":
				scriptsUsed = append(scriptsUsed, language.Script(op.Script))
				fm.SetScript(language.Script(op.Script))
				opTerms = append(opTerms, vh.App("OpSetScript", vh.Z(int64(op.Script))))
				curS = op.Script
			case "size":
				fm.SetRuneCacheSize(op.Size)
				opTerms = append(opTerms, vh.App("OpCacheSize", vh.Zi(op.Size)))
			case "resolve":
				opTerms = append(opTerms, vh.App("OpResolve", vh.Z(int64(op.Rune))))
				face := fm.ResolveFace(op.Rune)
				answers = append(answers, t.face(face))
				nResolve++
				k := fmt.Sprint(curQ, curS, op.Rune)
				if seenKeys[k] {
					nHitsPossible++
				}
				seenKeys[k] = true
			default:
				panic("unknown op " + op.K)
			}
			mapLen, entries := fm.VerifLRU()
			built, c1, c2, c3 := fm.VerifCandidates()
			cands := "None"
			if built {
				cands = vh.Some(vh.Tuple(c14Nats(c1), c14Nats(c2), c14Nats(c3)))
			}
			obs = append(obs, vh.Tuple(vh.Zi(mapLen), vh.Zi(len(entries)), cands))
		}
	}()

	// final LRU list and database
	var lruTerms, dbTerms []string
	if panicked == nil {
		_, entries := fm.VerifLRU()
		for _, e := range entries {
			ids := make([]int64, len(e.Families))
			for i, f := range e.Families {
				ids[i] = int64(t.fam(f))
			}
			lruTerms = append(lruTerms, vh.Tuple(vh.ZList(ids), vh.Z(int64(e.Script)), vh.Z(int64(e.Rune)), t.face(e.Face)))
		}
		for _, fp := range fm.VerifDatabase() {
			runes, scripts := fpTerm(fp)
			dbTerms = append(dbTerms, vh.App("mkFp", vh.Zi(t.loc(fp.Location)), vh.Zi(t.fam(fp.Family)), runes, scripts,
				c14AspectTerm(c14AspectOf(fp.Aspect)), vh.Bool(fp.User), vh.Bool(fp.Mono), vh.Bool(fp.TTF)))
		}
	}

	// tables of the external functions, on everything interned
	for i := 0; i < len(t.famStr); i++ { // the normalized spellings (appends while iterating)
		t.fam(font.NormalizeFamily(t.famStr[i]))
	}
	var normT, genT, slangT, substT []string
	for id, s := range t.famStr {
		if n := t.fam(font.NormalizeFamily(s)); n != id {
			normT = append(normT, vh.Tuple(vh.Zi(id), vh.Zi(n)))
		}
		if fontscan.VerifIsGenericFamily(s) {
			genT = append(genT, vh.Zi(id))
		}
	}
	langs := map[language.LangID]bool{}
	seenScript := map[language.Script]bool{}
	for _, s := range scriptsUsed {
		if seenScript[s] {
			continue
		}
		seenScript[s] = true
		l := language.ScriptToLang[s]
		langs[l] = true
		if l != 0 {
			slangT = append(slangT, vh.Tuple(vh.Z(int64(s)), vh.Z(int64(l))))
		}
	}
	seenSub := map[string]bool{}
	addSub := func(fams []string, lang language.LangID) {
		key := fmt.Sprintf("%q/%d", fams, lang)
		if seenSub[key] {
			return
		}
		seenSub[key] = true
		ids := make([]int64, len(fams))
		for i, f := range fams {
			ids[i] = int64(t.fams[f])
		}
		cr := fontscan.VerifCrible(fams, lang)
		keys := make([]string, 0, len(cr))
		for k := range cr {
			if _, ok := t.fams[k]; ok {
				keys = append(keys, k)
			}
		}
		sort.Strings(keys)
		var entries []string
		for _, k := range keys {
			entries = append(entries, vh.Tuple(vh.Zi(t.fams[k]), vh.Tuple(vh.Zi(cr[k].Score), vh.Bool(cr[k].Strong))))
		}
		substT = append(substT, vh.Tuple(vh.ZList(ids), vh.Z(int64(lang)), vh.List(entries)))
	}
	for _, fams := range famLists {
		for l := range langs {
			addSub(fams, l)
		}
		for _, f := range fams {
			if fontscan.VerifIsGenericFamily(f) {
				addSub([]string{f}, 0)
			}
		}
	}
	sort.Strings(substT)
	// what KeyFor hashes: the concatenation of the family strings
	var concatT []string
	concatIDs := map[string]int{}
	seenList := map[string]bool{}
	for _, fams := range famLists {
		if k := fmt.Sprintf("%q", fams); seenList[k] {
			continue
		} else {
			seenList[k] = true
		}
		cat := strings.Join(fams, "")
		id, ok := concatIDs[cat]
		if !ok {
			id = len(concatIDs)
			concatIDs[cat] = id
		}
		ids := make([]int64, len(fams))
		for i, f := range fams {
			ids[i] = int64(t.fams[f])
		}
		concatT = append(concatT, vh.Tuple(vh.ZList(ids), vh.Zi(id)))
	}

	coq := vh.App("mkCase", vh.List(normT), vh.List(genT), vh.Zi(t.fams[""]), vh.List(substT), vh.List(slangT), vh.List(concatT),
		vh.List(opTerms), vh.List(answers), vh.List(obs), vh.List(lruTerms), vh.List(dbTerms))
	key := ""
	if nAdd > 0 && nResolve > 0 {
		key = coq
	}
	hits := "repeated-key=0"
	if nHitsPossible > 0 {
		hits = "repeated-key>0"
	}
	idx := o.Add(in, coq, key, fmt.Sprintf("adds=%d", c14Min(nAdd, 5)), hits)
	if panicked != nil {
		o.Fail(idx, "panic", fmt.Sprint(panicked))
	}
}

func c14Min(a, b int) int {
	if a < b {
		return a
	}
	return b
}
