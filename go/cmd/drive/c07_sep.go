package main

import (
	"encoding/json"
	"fmt"
	"unicode"

	"github.com/go-text/typesetting/shaping"
	"golang.org/x/text/unicode/bidi"

	"verifharness/internal/vh"
)

// c07sep: one case - every rune for which shaping.isParagraphSeparator answers true, found by a sweep over all code
// points (and a few values that are no code points); Check/C07sep.v compares the list with `para_seps` of the model.
type c07SepInput struct {
	Sweep bool `json:"sweep"`
}

func init() {
	drivers["c07sep"] = &driver{
		header: "From TV Require Import Check.C07sep.",
		shard:  4,
		n:      func(string) int { return 1 },
		decode: func(raw json.RawMessage) (any, error) {
			var in c07SepInput
			err := json.Unmarshal(raw, &in)
			return in, err
		},
		gen: func(r *vh.Rand, tier string, n int, emit func(any)) { emit(c07SepInput{Sweep: true}) },
		run: func(o *vh.Out, inAny any) {
			var seps []int
			var fails []string
			for _, r := range []rune{-1, -10, 0xD800 + 10, 0x110000 + 10, 0x7FFFFFFF} {
				if shaping.VerifIsParagraphSeparator(r) {
					seps = append(seps, int(r))
				}
			}
			for r := rune(0); r <= unicode.MaxRune; r++ {
				got := shaping.VerifIsParagraphSeparator(r)
				if got {
					seps = append(seps, int(r))
				}
				// the class x/text itself stops at in Paragraph.SetString
				if p, _ := bidi.LookupRune(r); (p.Class() == bidi.B) != got && len(fails) < 5 {
					fails = append(fails, fmt.Sprintf("isParagraphSeparator(U+%04X) = %v, x/text bidi class B: %v", r, got, !got))
				}
			}
			coq := vh.App("mkCase", vh.IntList(seps))
			idx := o.Add(inAny, coq, coq, "sweep")
			for _, f := range fails {
				o.Fail(idx, "rune-class", f)
			}
		},
	}
}
