package main

import (
	"encoding/json"
	"fmt"
	"strings"

	hb "github.com/go-text/typesetting/harfbuzz"

	"verifharness/internal/vh"
)

// ---- c01buf / c18flags: the real harfbuzz.Buffer methods against Model/Buffer.v -----------------

type bufGlyph struct {
	C int    `json:"c"`
	M uint32 `json:"m"`
	P int32  `json:"p"`
	G uint32 `json:"g"`
	U uint16 `json:"u,omitempty"` // GlyphInfo.unicode
	Q uint16 `json:"q,omitempty"` // GlyphInfo.glyphProps
}
type bufState struct {
	Info   []bufGlyph `json:"info"`
	Out    []bufGlyph `json:"out"`
	Idx    int        `json:"idx"`
	Have   bool       `json:"have"`
	PosLen int        `json:"pos_len"`
	PosCap int        `json:"pos_cap"`
	Level  int        `json:"level"`
	Flags  uint16     `json:"flags"`
	HasGF  bool       `json:"has_gf"`
}
type bufOp struct {
	Name    string  `json:"op"`
	A       int     `json:"a,omitempty"`
	B       int     `json:"b,omitempty"`
	Mask    uint32  `json:"mask,omitempty"`
	I       bool    `json:"i,omitempty"`
	F       bool    `json:"f,omitempty"`
	HasCps  bool    `json:"has_cps,omitempty"`
	Cps     []int32 `json:"cps,omitempty"`
	HasGids bool    `json:"has_gids,omitempty"`
	Gids    []uint32 `json:"gids,omitempty"`
	C       int     `json:"c,omitempty"`    // addrune: cluster; addrunes: itemLength
	Text    []int32 `json:"text,omitempty"` // addrunes
	Cap     int     `json:"cap,omitempty"`  // addrune(s): cap(Pos) observed afterwards
}
type bufInput struct {
	Init bufState `json:"init"`
	Ops  []bufOp  `json:"ops"`
}

func init() {
	mk := func(header string, c18 bool) *driver {
		return &driver{
			header: header,
			shard:  250,
			n: func(tier string) int {
				if tier == "quick" {
					return 1500
				}
				return 15000
			},
			decode: func(raw json.RawMessage) (any, error) {
				var in bufInput
				err := json.Unmarshal(raw, &in)
				return in, err
			},
			gen: func(r *vh.Rand, tier string, n int, emit func(any)) { bufGen(r, tier, n, emit, c18) },
			run: bufRun,
		}
	}
	drivers["c01buf"] = mk("From TV Require Import Check.C01Buf.", false)
	drivers["c18flags"] = mk("From TV Require Import Check.C18.", true)
}

func toVerif(st bufState) hb.VerifState {
	cv := func(gs []bufGlyph) []hb.VerifGlyph {
		out := make([]hb.VerifGlyph, len(gs))
		for i, g := range gs {
			out[i] = hb.VerifGlyph{Cluster: g.C, Mask: g.M, Codepoint: rune(g.P), Glyph: hb.GID(g.G), Unicode: g.U, GlyphProps: g.Q}
		}
		return out
	}
	return hb.VerifState{Info: cv(st.Info), Out: cv(st.Out), Idx: st.Idx, HaveOutput: st.Have, PosLen: st.PosLen,
		PosCap: st.PosCap, Level: hb.ClusterLevel(st.Level), Flags: hb.ShappingOptions(st.Flags), HasGlyphFlags: st.HasGF}
}

func fromVerif(st hb.VerifState) bufState {
	cv := func(gs []hb.VerifGlyph) []bufGlyph {
		out := make([]bufGlyph, len(gs))
		for i, g := range gs {
			out[i] = bufGlyph{C: g.Cluster, M: g.Mask, P: int32(g.Codepoint), G: uint32(g.Glyph), U: g.Unicode, Q: g.GlyphProps}
		}
		return out
	}
	return bufState{Info: cv(st.Info), Out: cv(st.Out), Idx: st.Idx, Have: st.HaveOutput, PosLen: st.PosLen, PosCap: st.PosCap,
		Level: int(st.Level), Flags: uint16(st.Flags), HasGF: st.HasGlyphFlags}
}

func coqGlyphs(gs []bufGlyph) string {
	e := make([]string, len(gs))
	for i, g := range gs {
		if g.U == 0 && g.Q == 0 {
			e[i] = vh.App("G", vh.Zi(g.C), vh.Zi(int(g.M&7)), vh.Zi(int(g.M>>3)), vh.Zi(int(g.P)), vh.Zi(int(g.G)))
		} else {
			e[i] = vh.App("GX", vh.Zi(g.C), vh.Zi(int(g.M&7)), vh.Zi(int(g.M>>3)), vh.Zi(int(g.P)), vh.Zi(int(g.G)), vh.Zi(int(g.U)), vh.Zi(int(g.Q)))
		}
	}
	return vh.List(e)
}

func coqState(st bufState) string {
	return vh.App("mkB", coqGlyphs(st.Info), coqGlyphs(st.Out), vh.Zi(st.Idx), vh.Bool(st.Have), vh.Zi(st.PosLen), vh.Zi(st.PosCap),
		vh.Zi(st.Level), vh.Bool(hb.ShappingOptions(st.Flags)&hb.ProduceUnsafeToConcat != 0),
		vh.Bool(hb.ShappingOptions(st.Flags)&hb.ProduceSafeToInsertTatweel != 0), vh.Bool(st.HasGF))
}

func coqOptList32(has bool, xs []int32) string {
	if !has {
		return "None"
	}
	e := make([]string, len(xs))
	for i, x := range xs {
		e[i] = vh.Zi(int(x))
	}
	return vh.Some(vh.List(e))
}
func coqList32(xs []int32) string {
	e := make([]string, len(xs))
	for i, x := range xs {
		e[i] = vh.Zi(int(x))
	}
	return vh.List(e)
}
func coqOptListU32(has bool, xs []uint32) string {
	if !has {
		return "None"
	}
	e := make([]string, len(xs))
	for i, x := range xs {
		e[i] = vh.Zi(int(x))
	}
	return vh.Some(vh.List(e))
}

func coqOp(o bufOp) string {
	a, b := vh.Zi(o.A), vh.Zi(o.B)
	switch o.Name {
	case "next":
		return "ONext"
	case "nextn":
		return vh.App("ONextN", a)
	case "skip":
		return "OSkip"
	case "copy":
		return "OCopy"
	case "replidx":
		return vh.App("OReplIdx", a)
	case "replace":
		return vh.App("OReplace", a, coqOptList32(o.HasCps, o.Cps), coqOptListU32(o.HasGids, o.Gids))
	case "delete":
		return "ODelete"
	case "delinplace":
		return vh.App("ODeleteInplace", a)
	case "merge":
		return vh.App("OMerge", a, b)
	case "mergeout":
		return vh.App("OMergeOut", a, b)
	case "moveto":
		return vh.App("OMoveTo", a)
	case "shiftfwd":
		return vh.App("OShiftFwd", a)
	case "swap":
		return "OSwap"
	case "clearout":
		return "OClearOut"
	case "removeout":
		return vh.App("ORemoveOut", vh.Bool(o.I))
	case "clearpos":
		return "OClearPos"
	case "revrange":
		return vh.App("ORevRange", a, b)
	case "reverse":
		return "OReverse"
	case "revclusters":
		return "ORevClusters"
	case "setflags":
		return vh.App("OSetFlags", vh.App("FL", vh.Zi(int(o.Mask))), a, b, vh.Bool(o.I), vh.Bool(o.F))
	case "utb":
		return vh.App("OUnsafeBreak", a, b)
	case "utc":
		return vh.App("OUnsafeConcat", a, b)
	case "tatweel":
		return vh.App("OTatweel", a, b)
	case "utbout":
		return vh.App("OUnsafeBreakOut", a, b)
	case "utcout":
		return vh.App("OUnsafeConcatOut", a, b)
	case "propagate":
		return "OPropagate"
	case "addrune":
		return vh.App("OAddRune", a, vh.Zi(o.C), vh.Zi(o.Cap))
	case "addrunes":
		return vh.App("OAddRunes", coqList32(o.Text), a, vh.Zi(o.C), vh.Zi(o.Cap))
	case "sort":
		return vh.App("OSort", a, b)
	case "revgraphemes":
		return vh.App("ORevGraphemes", vh.Bool(o.I))
	}
	panic("unknown op " + o.Name)
}

// bufApply runs one operation on the real buffer; reports a panic.
func bufApply(b *hb.Buffer, o bufOp) (panicked any) {
	defer func() { panicked = recover() }()
	switch o.Name {
	case "next":
		b.VerifNextGlyph()
	case "nextn":
		b.VerifNextGlyphs(o.A)
	case "skip":
		b.VerifSkipGlyph()
	case "copy":
		b.VerifCopyGlyph()
	case "replidx":
		b.VerifReplaceGlyphIndex(hb.GID(o.A))
	case "replace":
		var cps []rune
		var gids []hb.GID
		if o.HasCps {
			cps = make([]rune, len(o.Cps))
			for i, c := range o.Cps {
				cps[i] = rune(c)
			}
		}
		if o.HasGids {
			gids = make([]hb.GID, len(o.Gids))
			for i, g := range o.Gids {
				gids[i] = hb.GID(g)
			}
		}
		// the three thin wrappers of replaceGlyphs are used when the shape of the call allows it
		switch {
		case o.A == 1 && o.HasCps && len(cps) == 1 && !o.HasGids:
			b.VerifReplaceGlyph(cps[0])
		case o.A == 0 && o.HasCps && len(cps) == 1 && !o.HasGids:
			b.VerifOutputRune(cps[0])
		case o.A == 0 && o.HasGids && len(gids) == 1 && !o.HasCps:
			b.VerifOutputGlyphIndex(gids[0])
		default:
			b.VerifReplaceGlyphs(o.A, cps, gids)
		}
	case "delete":
		b.VerifDeleteGlyph()
	case "delinplace":
		b.VerifDeleteGlyphsInplace(hb.GID(o.A))
	case "merge":
		b.VerifMergeClusters(o.A, o.B)
	case "mergeout":
		b.VerifMergeOutClusters(o.A, o.B)
	case "moveto":
		b.VerifMoveTo(o.A)
	case "shiftfwd":
		b.VerifShiftForward(o.A)
	case "swap":
		b.VerifSwapBuffers()
	case "clearout":
		b.VerifClearOutput()
	case "removeout":
		b.VerifRemoveOutput(o.I)
	case "clearpos":
		b.VerifClearPositions()
	case "revrange":
		b.VerifReverseRange(o.A, o.B)
	case "reverse":
		b.Reverse()
	case "revclusters":
		b.VerifReverseClusters()
	case "setflags":
		b.VerifSetGlyphFlags(o.Mask, o.A, o.B, o.I, o.F)
	case "utb":
		b.VerifUnsafeToBreak(o.A, o.B)
	case "utc":
		b.VerifUnsafeToConcat(o.A, o.B)
	case "tatweel":
		b.VerifSafeToInsertTatweel(o.A, o.B)
	case "utbout":
		b.VerifUnsafeToBreakFromOutbuffer(o.A, o.B)
	case "utcout":
		b.VerifUnsafeToConcatFromOutbuffer(o.A, o.B)
	case "propagate":
		b.VerifPropagateFlags()
	case "addrune":
		b.AddRune(rune(o.A), o.C)
	case "addrunes":
		text := make([]rune, len(o.Text))
		for i, c := range o.Text {
			text[i] = rune(c)
		}
		b.AddRunes(text[:len(text):len(text)], o.A, o.C)
	case "sort":
		b.VerifSort(o.A, o.B)
	case "revgraphemes":
		b.VerifReverseGraphemes(o.I)
	default:
		panic("unknown op " + o.Name)
	}
	return nil
}

// bufPre mirrors Spec/Buffer.v `pre` (only used to steer the generator).
func bufPre(o bufOp, st bufState) bool {
	n, ol := len(st.Info), len(st.Out)
	switch o.Name {
	case "next", "skip":
		return st.Idx < n
	case "nextn":
		return o.A >= 0 && st.Idx+o.A <= n
	case "copy", "replidx", "delete":
		return st.Have && st.Idx < n
	case "replace":
		return st.Have && o.A >= 0 && st.Idx+o.A <= n && (st.Idx < n || ol != 0) && (!o.HasCps || !o.HasGids || len(o.Cps) == len(o.Gids))
	case "delinplace":
		return !st.Have && st.Idx == 0
	case "merge":
		return 0 <= o.A && o.A <= o.B && o.B <= n && (!st.Have || st.Idx <= o.A)
	case "mergeout":
		return st.Have && 0 <= o.A && o.A <= o.B && o.B <= ol
	case "moveto":
		if st.Have {
			return 0 <= o.A && o.A <= ol+(n-st.Idx)
		}
		return 0 <= o.A && o.A <= n
	case "swap":
		return st.Have
	case "clearout", "removeout", "clearpos", "propagate", "reverse", "revclusters":
		return !st.Have
	case "setflags":
		if o.A < 0 {
			return false
		}
		if o.F && st.Have {
			return o.A <= ol && st.Idx <= o.B
		}
		if o.F && o.I { // as the non-out variant, which needs start <= end
			return o.A <= imin(o.B, n)
		}
		return true
	case "utb", "utc", "tatweel":
		return o.A >= 0
	case "utbout", "utcout":
		if o.A < 0 {
			return false
		}
		if st.Have {
			return o.A <= ol && st.Idx <= o.B
		}
		if o.Name == "utbout" {
			return o.A <= imin(o.B, n)
		}
		return true
	case "shiftfwd":
		return st.Have && o.A >= 0
	case "addrune":
		return bufMonotone(append(bufSeqClusters(st), o.C))
	case "addrunes":
		n := o.C
		if n < 0 {
			n = len(o.Text) - o.A
		}
		if o.A < 0 || n < 0 || o.A+n > len(o.Text) {
			return false
		}
		cl := bufSeqClusters(st)
		for i := 0; i < n; i++ {
			cl = append(cl, o.A+i)
		}
		return bufMonotone(cl)
	case "sort":
		return !st.Have && 0 <= o.A && o.B <= n
	case "revgraphemes":
		if st.Have {
			return false
		}
		if o.I {
			return true
		}
		for i := 1; i < n; i++ {
			if st.Info[i].U&0x80 != 0 && st.Info[i].C != st.Info[i-1].C {
				return false
			}
		}
		return true
	case "revrange":
		if st.Have || o.A < 0 || o.A > o.B || o.B > n {
			return false
		}
		if o.A == 0 && o.B == n {
			return true
		}
		for i := o.A; i < o.B; i++ {
			if st.Info[i].C != st.Info[o.A].C {
				return false
			}
		}
		return true
	}
	return false
}

// the cluster values of out ++ unread input (Spec/Buffer.v bseq)
func bufSeqClusters(st bufState) []int {
	var cl []int
	if st.Have {
		for _, g := range st.Out {
			cl = append(cl, g.C)
		}
		for i := st.Idx; i >= 0 && i < len(st.Info); i++ {
			cl = append(cl, st.Info[i].C)
		}
		return cl
	}
	for _, g := range st.Info {
		cl = append(cl, g.C)
	}
	return cl
}

func bufMonotone(cl []int) bool {
	up, down := true, true
	for i := 1; i < len(cl); i++ {
		if cl[i-1] > cl[i] {
			up = false
		}
		if cl[i-1] < cl[i] {
			down = false
		}
	}
	return up || down
}

var bufOpNames = []string{"addrune", "addrunes", "sort", "sort", "revgraphemes", "revgraphemes", "next", "next", "nextn", "skip", "copy", "replidx", "replace", "replace", "replace", "delete", "delete", "delinplace",
	"merge", "merge", "merge", "mergeout", "mergeout", "moveto", "moveto", "swap", "clearout", "removeout", "clearpos", "reverse", "revclusters",
	"setflags", "utb", "utb", "utc", "tatweel", "utbout", "utcout", "propagate", "shiftfwd", "revrange", "revrange"}
var bufFlagOps = []string{"setflags", "utb", "utb", "utb", "utc", "utc", "tatweel", "utbout", "utcout", "propagate", "propagate", "merge", "next", "replace", "delete", "swap", "clearout", "reverse"}

func bufPropose(r *vh.Rand, st bufState, names []string) bufOp {
	n, ol := len(st.Info), len(st.Out)
	o := bufOp{Name: names[r.Intn(len(names))]}
	rng := func(lo, hi int) int { return r.Range(lo, hi) }
	switch o.Name {
	case "nextn":
		o.A = rng(0, n-st.Idx)
	case "replidx":
		o.A = rng(0, 9)
	case "replace":
		o.A = rng(0, imin(3, imax(0, n-st.Idx)))
		k := rng(0, 3)
		switch r.Intn(3) {
		case 0:
			o.HasCps = true
		case 1:
			o.HasGids = true
		default:
			o.HasCps, o.HasGids = true, true
		}
		if o.HasCps {
			o.Cps = make([]int32, k)
			for i := range o.Cps {
				o.Cps[i] = int32(rng(65, 70))
			}
		}
		if o.HasGids {
			o.Gids = make([]uint32, k)
			for i := range o.Gids {
				o.Gids[i] = uint32(rng(0, 9))
			}
		}
	case "delinplace":
		o.A = rng(0, 10)
	case "merge":
		lo := 0
		if st.Have {
			lo = st.Idx
		}
		o.A = rng(lo, n)
		o.B = rng(o.A, imin(n, o.A+4))
	case "mergeout":
		o.A = rng(0, ol)
		o.B = rng(o.A, imin(ol, o.A+4))
		if r.Chance(50) { // a range that reaches the end of the out-buffer: the merge continues into Info
			o.B = ol
			o.A = rng(imax(0, ol-3), ol)
		}
	case "moveto":
		if st.Have {
			o.A = rng(0, ol+n-st.Idx)
		} else {
			o.A = rng(0, n)
		}
	case "removeout":
		o.I = r.Bool()
	case "addrune":
		o.A = rng(65, 90)
		cl := bufSeqClusters(st)
		o.C = rng(0, 9)
		if len(cl) > 0 && r.Chance(85) { // continue the buffer in its direction
			last := cl[len(cl)-1]
			if cl[0] > last || (cl[0] == last && r.Bool()) {
				o.C = last - rng(0, 2)
			} else {
				o.C = last + rng(0, 2)
			}
		}
	case "addrunes":
		tl := rng(0, 9)
		o.Text = make([]int32, tl)
		for i := range o.Text {
			o.Text[i] = int32(rng(65, 90))
		}
		cl := bufSeqClusters(st)
		o.A = rng(0, tl)
		if len(cl) > 0 && r.Chance(80) {
			o.A = imin(tl, imax(0, cl[len(cl)-1]+rng(0, 1)))
		}
		o.C = rng(0, tl-o.A)
		if r.Chance(25) {
			o.C = -1
		}
		if r.Chance(4) {
			o.C = tl - o.A + 1 // past the text: slice panic
		}
	case "sort":
		o.A = rng(0, n)
		o.B = rng(o.A, n)
		if r.Chance(50) { // a run of marks, as the normalizer does
			i := r.Intn(n + 1)
			for i < n && st.Info[i].U>>8 == 0 {
				i++
			}
			j := i
			for j < n && st.Info[j].U>>8 != 0 {
				j++
			}
			o.A, o.B = i, j
		}
	case "revgraphemes":
		o.I = st.Level == 1
		if r.Chance(30) {
			o.I = !o.I
		}
	case "shiftfwd":
		o.A = rng(0, 3)
	case "revrange":
		// the whole buffer, a sub-range of one run of equal clusters, or (rejected by bufPre) an arbitrary range
		switch {
		case n == 0 || r.Chance(35):
			o.A, o.B = 0, n
		case r.Chance(80):
			i := r.Intn(n)
			lo, hi := i, i+1
			for lo > 0 && st.Info[lo-1].C == st.Info[i].C {
				lo--
			}
			for hi < n && st.Info[hi].C == st.Info[i].C {
				hi++
			}
			o.A = rng(lo, hi)
			o.B = rng(o.A, hi)
		default:
			o.A = rng(0, n)
			o.B = rng(o.A, n)
		}
	case "setflags":
		o.Mask = uint32(rng(1, 7))
		o.I, o.F = r.Bool(), r.Bool()
		fallthrough
	case "utb", "utc", "tatweel", "utbout", "utcout":
		if (o.Name == "utbout" || o.Name == "utcout" || (o.Name == "setflags" && o.F)) && st.Have {
			o.A = rng(0, ol)
			o.B = rng(st.Idx, n+1)
		} else {
			o.A = rng(0, n)
			o.B = rng(o.A, n+2)
			if r.Chance(10) {
				o.B = int(^uint(0) >> 1) // maxInt, as unsafeToConcat(0, maxInt)
			} else if r.Chance(8) {
				o.B = rng(0, n) // possibly start > end: an empty window for the variants that tolerate it
			}
		}
	}
	return o
}

// index-panic-only malformed operations (the model's Panic is exact for these whatever the capacities)
func bufMalformed(r *vh.Rand, st bufState) bufOp {
	n, ol := len(st.Info), len(st.Out)
	switch r.Intn(8) {
	case 6:
		return bufOp{Name: "addrunes", Text: []int32{65, 66, 67}, A: r.Range(0, 4), C: r.Range(2, 4)}
	case 7:
		if !st.Have && n > 0 {
			return bufOp{Name: "sort", A: r.Range(0, n-1), B: n + r.Range(1, 2)}
		}
		return bufOp{Name: "copy"}
	case 0:
		return bufOp{Name: "merge", A: r.Range(0, n), B: n + r.Range(1, 2)}
	case 1:
		return bufOp{Name: "mergeout", A: r.Range(0, ol), B: ol + r.Range(1, 2)}
	case 2:
		return bufOp{Name: "copy"}
	case 3:
		return bufOp{Name: "delete"}
	case 4:
		return bufOp{Name: "replidx", A: 3}
	default:
		return bufOp{Name: "merge", A: -1, B: r.Range(1, n)}
	}
}

func bufRandomInit(r *vh.Rand) bufState {
	n := r.Range(0, 8)
	if r.Chance(15) {
		n = r.Range(9, 14)
	}
	dec := r.Bool()
	cls, _ := c01MonotoneClusters(r, dec)
	for len(cls) < n {
		cls2, _ := c01MonotoneClusters(r, dec)
		if len(cls2) == 0 {
			cls2 = []int{0}
		}
		cls = cls2
	}
	cls = cls[:n]
	st := bufState{Level: 0, PosLen: n, PosCap: n}
	if r.Chance(30) {
		st.Level = 1
	} else if r.Chance(8) {
		st.Level = 2
	}
	if r.Chance(35) {
		st.Flags |= uint16(hb.ProduceUnsafeToConcat)
	}
	if r.Chance(25) {
		st.Flags |= uint16(hb.ProduceSafeToInsertTatweel)
	}
	flagged := r.Chance(40)
	st.HasGF = flagged
	st.Info = make([]bufGlyph, n)
	for i := range st.Info {
		m := uint32(r.Intn(4)) << 3
		if flagged && r.Chance(40) {
			m |= uint32(r.Intn(8))
		}
		st.Info[i] = bufGlyph{C: cls[i], M: m, P: int32(r.Range(65, 90)), G: uint32(r.Range(0, 9))}
	}
	if r.Chance(60) { // unicode props: bases (Lo) and marks (Mn, continuation, a modified combining class)
		grapheme := r.Chance(70) // continuation glyphs share the cluster of their base, as after formClusters
		for i := range st.Info {
			st.Info[i].U = 7
			if i > 0 && r.Chance(45) {
				ccc := []uint16{0, 1, 7, 9, 27, 220, 220, 230, 230, 230}[r.Intn(10)]
				st.Info[i].U = ccc<<8 | 0x80 | 12
				if grapheme && st.Level != 2 {
					st.Info[i].C = st.Info[i-1].C
				}
			} else if i > 0 && r.Chance(10) {
				st.Info[i].U = 0x80 | 0x20 | 1 // a format continuation (ZWJ-like): continuation without being a mark
				if grapheme && st.Level != 2 {
					st.Info[i].C = st.Info[i-1].C
				}
			}
		}
		if grapheme && st.Level != 2 { // restore monotonicity after the overwrite
			for i := 1; i < n; i++ {
				if dec && st.Info[i].C > st.Info[i-1].C || !dec && st.Info[i].C < st.Info[i-1].C {
					st.Info[i].C = st.Info[i-1].C
				}
			}
		}
	}
	if st.Level == 2 && r.Chance(50) && n > 1 { // Characters: clusters need not be monotone
		i, j := r.Intn(n), r.Intn(n)
		st.Info[i].C, st.Info[j].C = st.Info[j].C, st.Info[i].C
	}
	if r.Chance(20) {
		st.PosLen, st.PosCap = 0, 0
	} else if r.Chance(10) {
		st.PosCap = n + r.Range(1, 3)
	}
	return st
}

func bufSimulate(r *vh.Rand, init bufState, steps int, names []string) bufInput {
	in := bufInput{Init: init}
	b := hb.VerifNewBuffer(toVerif(init))
	st := init
	for k := 0; k < steps; k++ {
		var o bufOp
		ok := false
		if r.Chance(4) {
			o, ok = bufMalformed(r, st), true
		}
		for try := 0; !ok && try < 30; try++ {
			o = bufPropose(r, st, names)
			ok = bufPre(o, st)
		}
		if !ok {
			break
		}
		in.Ops = append(in.Ops, o)
		if bufApply(b, o) != nil {
			break
		}
		st = fromVerif(b.VerifState())
	}
	return in
}

func bufGen(r *vh.Rand, tier string, n int, emit func(any), c18 bool) {
	names := bufOpNames
	if c18 {
		names = bufFlagOps
	}
	// exhaustive small: every sequence of `depth` operations of a fixed alphabet (where the precondition holds) on
	// two small buffers, after clearOutput
	depth := 2
	if tier != "quick" {
		depth = 3
	}
	inits := []bufState{
		{Info: []bufGlyph{{C: 0, M: 8, P: 65, G: 1, U: 7}, {C: 1, M: 1, P: 66, G: 0, U: 7}, {C: 1, M: 0, P: 67, G: 2, U: 230<<8 | 0x8c}, {C: 3, M: 0, P: 68, G: 0, U: 220<<8 | 0x8c}}, PosLen: 4, PosCap: 4, Have: true, HasGF: true},
		{Info: []bufGlyph{{C: 4, M: 0, P: 65, G: 0, U: 7}, {C: 2, M: 2, P: 66, G: 3, U: 230<<8 | 0x8c}, {C: 2, M: 0, P: 67, G: 0, U: 220<<8 | 0x8c}, {C: 0, M: 4, P: 68, G: 5, U: 7}}, PosLen: 4, PosCap: 4, Have: true, Level: 1, Flags: uint16(hb.ProduceUnsafeToConcat), HasGF: true},
	}
	// the same two buffers in the middle of a pass: two glyphs already in the out-buffer, the cursor inside a cluster
	for _, init := range inits[:2] {
		mid := init
		mid.Out = append([]bufGlyph(nil), init.Info[:2]...)
		mid.Idx = 2
		inits = append(inits, mid)
	}
	alphabet := []bufOp{
		{Name: "next"}, {Name: "skip"}, {Name: "copy"}, {Name: "delete"}, {Name: "replidx", A: 7},
		{Name: "replace", A: 1, HasGids: true, Gids: []uint32{8, 9}}, {Name: "replace", A: 2, HasGids: true, Gids: []uint32{6}},
		{Name: "replace", A: 0, HasCps: true, Cps: []int32{70}}, {Name: "replace", A: 2, HasGids: true, Gids: []uint32{}},
		{Name: "merge", A: 0, B: 2}, {Name: "merge", A: 1, B: 3}, {Name: "merge", A: 2, B: 4}, {Name: "merge", A: 0, B: 4},
		{Name: "mergeout", A: 0, B: 2}, {Name: "mergeout", A: 1, B: 3},
		{Name: "moveto", A: 0}, {Name: "moveto", A: 1}, {Name: "moveto", A: 3}, {Name: "swap"},
		{Name: "utb", A: 0, B: 3}, {Name: "utb", A: 1, B: 4}, {Name: "utbout", A: 0, B: 3}, {Name: "utcout", A: 1, B: 2},
		{Name: "utc", A: 0, B: 4}, {Name: "propagate"}, {Name: "clearout"}, {Name: "delinplace", A: 1}, {Name: "reverse"}, {Name: "revclusters"},
		{Name: "shiftfwd", A: 2}, {Name: "revrange", A: 1, B: 3}, {Name: "revrange", A: 0, B: 4}, {Name: "removeout", I: true},
		{Name: "sort", A: 0, B: 4}, {Name: "sort", A: 1, B: 4}, {Name: "revgraphemes", I: true}, {Name: "revgraphemes", I: false},
		{Name: "addrune", A: 69, C: 3}, {Name: "addrune", A: 69, C: 0}, {Name: "addrunes", Text: []int32{65, 66, 67, 68, 69, 70}, A: 3, C: 2},
		{Name: "addrunes", Text: []int32{65, 66, 67, 68, 69, 70}, A: 4, C: -1},
	}
	if c18 {
		alphabet = []bufOp{
			{Name: "next"}, {Name: "delete"}, {Name: "replace", A: 2, HasGids: true, Gids: []uint32{6}}, {Name: "merge", A: 1, B: 3}, {Name: "swap"},
			{Name: "utb", A: 0, B: 2}, {Name: "utb", A: 0, B: 3}, {Name: "utb", A: 1, B: 4}, {Name: "utb", A: 2, B: 9}, {Name: "utb", A: 0, B: 4},
			{Name: "utc", A: 0, B: 4}, {Name: "utc", A: 1, B: 3}, {Name: "tatweel", A: 0, B: 3}, {Name: "utbout", A: 0, B: 3}, {Name: "utcout", A: 0, B: 2},
			{Name: "setflags", Mask: 4, A: 1, B: 3, I: false}, {Name: "propagate"}, {Name: "clearout"}, {Name: "reverse"},
		}
	}
	var rec func(init bufState, prefix []bufOp, b *hb.Buffer)
	for _, init := range inits {
		init := init
		rec = func(init bufState, prefix []bufOp, _ *hb.Buffer) {
			if len(prefix) > 0 {
				emit(bufInput{Init: init, Ops: append([]bufOp(nil), prefix...)})
			}
			if len(prefix) == depth {
				return
			}
			// recompute the state reached by prefix
			b := hb.VerifNewBuffer(toVerif(init))
			for _, o := range prefix {
				if bufApply(b, o) != nil {
					return
				}
			}
			st := fromVerif(b.VerifState())
			for _, o := range alphabet {
				if bufPre(o, st) {
					rec(init, append(prefix, o), nil)
				}
			}
		}
		rec(init, nil, nil)
		// the same buffer without output in progress
		init.Have = false
		rec(init, nil, nil)
	}
	for i := 0; i < n; i++ {
		init := bufRandomInit(r)
		steps := r.Range(1, 8)
		var pre []bufOp
		if r.Chance(70) { // the usual life cycle: clearOutput, edit, swapBuffers
			pre = []bufOp{{Name: "clearout"}}
		}
		in := bufInput{Init: init}
		if len(pre) > 0 {
			b := hb.VerifNewBuffer(toVerif(init))
			bufApply(b, pre[0])
			st := fromVerif(b.VerifState())
			sim := bufSimulate(r, st, steps, names)
			in.Ops = append(pre, sim.Ops...)
		} else {
			in = bufSimulate(r, init, steps, names)
		}
		if len(in.Ops) == 0 {
			continue
		}
		emit(in)
	}
}

func bufRun(o *vh.Out, inAny any) {
	in := inAny.(bufInput)
	b := hb.VerifNewBuffer(toVerif(in.Init))
	steps := make([]string, 0, len(in.Ops))
	var classes []string
	var firstPanic any
	for _, op := range in.Ops {
		p := bufApply(b, op)
		if op.Name == "addrune" || op.Name == "addrunes" {
			op.Cap = b.VerifState().PosCap // the capacity the runtime chose is an input of the model
		}
		classes = append(classes, "op:"+op.Name)
		if p != nil {
			steps = append(steps, vh.Tuple(coqOp(op), "OPanic"))
			firstPanic = p
			classes = append(classes, "panic")
			break
		}
		steps = append(steps, vh.Tuple(coqOp(op), vh.App("OState", coqState(fromVerif(b.VerifState())))))
	}
	_ = firstPanic
	coq := vh.App("mkCase", coqState(in.Init), vh.List(steps))
	key := coq
	if len(in.Ops) == 0 {
		key = ""
	}
	classes = append(classes, fmt.Sprintf("nops=%d", len(in.Ops)), fmt.Sprintf("level=%d", in.Init.Level))
	o.Add(in, coq, key, classes...)
}

var _ = strings.Join

func imin(a, b int) int {
	if a < b {
		return a
	}
	return b
}
func imax(a, b int) int {
	if a > b {
		return a
	}
	return b
}
