package main

import (
	"bytes"
	"compress/zlib"
	"encoding/binary"
	"encoding/json"
	"fmt"
	"runtime"

	"github.com/go-text/typesetting/font"
	ot "github.com/go-text/typesetting/font/opentype"
	"github.com/go-text/typesetting/font/opentype/tables"

	"verifharness/internal/vh"
)

// ---------------------------------------------------------------------------------------------
// c09container: opentype.NewLoaders + RawTable on structured / mutated / random byte strings

type c09cInput struct {
	File  []byte `json:"file"`
	Class string `json:"class"`
}

func init() {
	drivers["c09container"] = &driver{
		header: "From TV Require Import Check.C09.",
		shard:  120,
		n: func(tier string) int {
			if tier == "quick" {
				return 700
			}
			return 12000
		},
		decode: func(raw json.RawMessage) (any, error) {
			var in c09cInput
			err := json.Unmarshal(raw, &in)
			return in, err
		},
		gen: c09cGen,
		run: c09cRun,
	}
	drivers["c09glyf"] = &driver{
		header: "From TV Require Import Check.C09glyf.",
		shard:  100,
		n: func(tier string) int {
			if tier == "quick" {
				return 1200
			}
			return 20000
		},
		decode: func(raw json.RawMessage) (any, error) {
			var in c09gInput
			err := json.Unmarshal(raw, &in)
			return in, err
		},
		gen: c09gGen,
		run: c09gRun,
	}
	drivers["c09cmap4"] = &driver{
		header: "From TV Require Import Check.C09cmap.",
		shard:  100,
		n: func(tier string) int {
			if tier == "quick" {
				return 1200
			}
			return 20000
		},
		decode: func(raw json.RawMessage) (any, error) {
			var in c09mInput
			err := json.Unmarshal(raw, &in)
			return in, err
		},
		gen: c09mGen,
		run: c09mRun,
	}
}

func be16(v int) []byte { return []byte{byte(v >> 8), byte(v)} }
func be32(v uint32) []byte {
	return []byte{byte(v >> 24), byte(v >> 16), byte(v >> 8), byte(v)}
}

type c09Tab struct {
	tag  uint32
	data []byte
}

func c09Tables(r *vh.Rand, k int) []c09Tab {
	common := []string{"head", "maxp", "cmap", "glyf", "loca", "hhea", "hmtx", "name", "OS/2", "post"}
	var ts []c09Tab
	used := map[uint32]bool{}
	for len(ts) < k {
		var tag uint32
		if r.Chance(70) {
			tag = binary.BigEndian.Uint32([]byte(common[r.Intn(len(common))]))
		} else {
			tag = 0x41414141 + uint32(r.Intn(6))
		}
		if used[tag] && !r.Chance(10) {
			continue
		}
		used[tag] = true
		ts = append(ts, c09Tab{tag, r.Bytes(r.Range(0, 9))})
	}
	return ts
}

// c09Sfnt writes an sfnt whose table offsets are relative to `base` (0 for files, the position of the font for
// collections with absolute offsets). Returns the bytes and the positions of the 16/32 bit fields of the directory.
func c09Sfnt(magic uint32, ts []c09Tab, base int) []byte {
	var out []byte
	out = append(out, be32(magic)...)
	out = append(out, be16(len(ts))...)
	out = append(out, 0, 0, 0, 0, 0, 0)
	off := 12 + 16*len(ts)
	for _, t := range ts {
		out = append(out, be32(t.tag)...)
		out = append(out, 0, 0, 0, 0)
		out = append(out, be32(uint32(base+off))...)
		out = append(out, be32(uint32(len(t.data)))...)
		off += len(t.data)
	}
	for _, t := range ts {
		out = append(out, t.data...)
	}
	return out
}

func c09Woff(r *vh.Rand, flavor uint32, ts []c09Tab) []byte {
	hdr := make([]byte, 44)
	copy(hdr, "wOFF")
	binary.BigEndian.PutUint32(hdr[4:], flavor)
	binary.BigEndian.PutUint16(hdr[12:], uint16(len(ts)))
	out := hdr
	off := 44 + 20*len(ts)
	var bodies []byte
	for _, t := range ts {
		body := t.data
		orig := len(t.data)
		if r.Chance(50) && len(t.data) > 0 {
			// really compressed; pretend a larger original so that compLength < origLength holds sometimes
			var zb bytes.Buffer
			w := zlib.NewWriter(&zb)
			big := bytes.Repeat(t.data, 8)
			w.Write(big)
			w.Close()
			if zb.Len() < len(big) {
				body = zb.Bytes()
				orig = len(big)
			}
		}
		out = append(out, be32(t.tag)...)
		out = append(out, be32(uint32(off))...)
		out = append(out, be32(uint32(len(body)))...)
		out = append(out, be32(uint32(orig))...)
		out = append(out, 0, 0, 0, 0)
		off += len(body)
		bodies = append(bodies, body...)
	}
	binary.BigEndian.PutUint32(out[8:], uint32(off))
	return append(out, bodies...)
}

func c09TTC(fonts [][]c09Tab, magic uint32) []byte {
	n := len(fonts)
	out := []byte("ttcf")
	out = append(out, 0, 1, 0, 0)
	out = append(out, be32(uint32(n))...)
	pos := 12 + 4*n
	var bodies []byte
	for _, ts := range fonts {
		out = append(out, be32(uint32(pos))...)
		b := c09Sfnt(magic, ts, pos)
		bodies = append(bodies, b...)
		pos += len(b)
	}
	return append(out, bodies...)
}

// c09Dfont builds a resource fork: 16-byte header, resource data at 0x100 (each font preceded by its length),
// then the resource map: 28-byte header (type list offset at +24), type list, reference lists.
func c09Dfont(r *vh.Rand, fonts [][]c09Tab, extraTypes int) []byte {
	return c09DfontGap(r, fonts, extraTypes, 0)
}

// c09DfontGap leaves `gap` unused bytes between the type list and the reference lists.
func c09DfontGap(r *vh.Rand, fonts [][]c09Tab, extraTypes int, gap int) []byte {
	data := []byte{}
	var rel []int
	for _, ts := range fonts {
		rel = append(rel, len(data))
		b := c09Sfnt(0x00010000, ts, 0)
		data = append(data, be32(uint32(len(b)))...)
		data = append(data, b...)
	}
	mapOff := 0x100 + len(data)
	tlo := 28
	nTypes := 1 + extraTypes
	typeList := be16(nTypes - 1)
	refOff := 2 + 8*nTypes + gap // relative to the type list
	for i := 0; i < extraTypes; i++ {
		typeList = append(typeList, []byte("FOND")...)
		typeList = append(typeList, be16(0)...)
		typeList = append(typeList, be16(refOff)...)
	}
	typeList = append(typeList, []byte("sfnt")...)
	typeList = append(typeList, be16(len(fonts)-1)...)
	typeList = append(typeList, be16(refOff)...)
	var refs []byte
	for i := range fonts {
		refs = append(refs, be16(128+i)...)
		refs = append(refs, 0xff, 0xff)
		refs = append(refs, byte(r.Intn(256)), byte(rel[i]>>16), byte(rel[i]>>8), byte(rel[i]))
		refs = append(refs, 0, 0, 0, 0)
	}
	typeList = append(typeList, make([]byte, gap)...)
	mapLen := 28 + len(typeList) + len(refs)
	out := make([]byte, 0x100)
	binary.BigEndian.PutUint32(out[0:], 0x100)
	binary.BigEndian.PutUint32(out[4:], uint32(mapOff))
	binary.BigEndian.PutUint32(out[8:], uint32(len(data)))
	binary.BigEndian.PutUint32(out[12:], uint32(mapLen))
	out = append(out, data...)
	mh := make([]byte, 28)
	binary.BigEndian.PutUint16(mh[24:], uint16(tlo))
	binary.BigEndian.PutUint16(mh[26:], uint16(mapLen))
	out = append(out, mh...)
	out = append(out, typeList...)
	out = append(out, refs...)
	return out
}

var c09Vals16 = []int{0, 1, 2, 27, 28, 29, 0x7ffe, 0x7fff, 0x8000, 0x8001, 0xfffe, 0xffff, 2047, 2048, 2049}
var c09Vals32 = []uint32{0, 1, 2, 27, 28, 2047, 2048, 2049, 0x100, 0x10000, 1 << 29, 1<<29 + 1, 1<<29 - 1, 0x7fffffff, 0x80000000, 0xfffffffe, 0xffffffff}

func c09cGen(r *vh.Rand, tier string, n int, emit func(any)) {
	magics := []uint32{0x00010000, 0x4f54544f, 0x74797031, 0x74727565, 0x774f4646, 0x74746366, 0x00000100, 0x12345678}
	out := func(class string, b []byte) { emit(c09cInput{File: append([]byte{}, b...), Class: class}) }
	// 1. every magic on very short files (Read returns what is there), incl. the empty file
	out("short", nil)
	for _, m := range magics {
		full := append(be32(m), make([]byte, 60)...)
		for l := 1; l <= 20; l++ {
			out("short", full[:l])
		}
		out("short", full[:44])
		out("short", full[:64])
	}
	// the 28-byte witness of F10 (one table of 0xF0000000 bytes) and a WOFF sibling
	w := c09Sfnt(0x00010000, []c09Tab{{0x68656164, nil}}, 0)
	binary.BigEndian.PutUint32(w[24:], 0xF0000000)
	out("f10", w)
	ww := c09Woff(r, 0x00010000, []c09Tab{{0x68656164, []byte{1, 2, 3, 4}}})
	binary.BigEndian.PutUint32(ww[44+12:], 0xF0000000)
	out("f10", ww)

	mutate := func(class string, base []byte, limit int, stride int) {
		// truncations
		for l := 0; l <= len(base) && l <= limit; l++ {
			if l < 48 || l%stride == 0 || l == len(base) {
				out(class+"/trunc", base[:l])
			}
		}
		// every 16-bit and 32-bit aligned field of the first `limit` bytes set to boundary and near-size values
		for p := 0; p+2 <= len(base) && p < limit; p += 2 {
			vals := append([]int{}, c09Vals16...)
			vals = append(vals, len(base)&0xffff, (len(base)-1)&0xffff, (len(base)+1)&0xffff)
			for _, v := range vals {
				if !r.Chance(stride * 6) {
					continue
				}
				b := append([]byte{}, base...)
				binary.BigEndian.PutUint16(b[p:], uint16(v))
				out(class+"/f16", b)
			}
		}
		for p := 0; p+4 <= len(base) && p < limit; p += 4 {
			vals := append([]uint32{}, c09Vals32...)
			vals = append(vals, uint32(len(base)), uint32(len(base)-1), uint32(len(base)+1), uint32(len(base)-p), uint32(len(base)-p+1))
			for _, v := range vals {
				if !r.Chance(stride * 6) {
					continue
				}
				b := append([]byte{}, base...)
				binary.BigEndian.PutUint32(b[p:], v)
				out(class+"/f32", b)
			}
		}
	}
	amplify := func(round int) {
		// amplification: many members sharing one directory with a large table count
		{
			nf, nt := 2048, 8
			if round > 0 {
				nf, nt = r.Range(100, 1000), r.Range(10, 60)
			}
			h := []byte("ttcf")
			h = append(h, 0, 1, 0, 0)
			h = append(h, be32(uint32(nf))...)
			for i := 0; i < nf; i++ {
				h = append(h, be32(uint32(12+4*nf))...)
			}
			dir := append(be32(0x00010000), be16(nt)...)
			dir = append(dir, 0, 0, 0, 0, 0, 0)
			for i := 0; i < nt; i++ {
				dir = append(dir, be32(uint32(0x61000000+i))...)
				dir = append(dir, 0, 0, 0, 0, 0, 0, 0, 0, 0, 0, 0, 0)
			}
			out("ttc/amplify", append(h, dir...))
			// a 16-bit table count that is not backed by entries
			sh := append(be32(0x00010000), be16(0xffff)...)
			out("sfnt/count", append(sh, make([]byte, 6+32)...))
		}
	}
	amplify(0) // first: the only expensive case to evaluate
	rounds := 1
	if tier != "quick" {
		rounds = 6
	}
	for round := 0; round < rounds; round++ {
		// 2. sfnt
		for _, m := range magics[:4] {
			ts := c09Tables(r, r.Range(0, 4))
			b := c09Sfnt(m, ts, 0)
			mutate("sfnt", b, 12+16*len(ts), 4)
		}
		// valid sfnt written by the library
		{
			ts := c09Tables(r, 3)
			var tt []ot.Table
			for _, t := range ts {
				tt = append(tt, ot.Table{Tag: ot.Tag(t.tag), Content: t.data})
			}
			out("sfnt/written", ot.WriteTTF(tt))
		}
		// 3. WOFF
		{
			ts := c09Tables(r, r.Range(1, 3))
			b := c09Woff(r, 0x00010000, ts)
			mutate("woff", b, 44+20*len(ts), 4)
		}
		// 4. TTC
		{
			fonts := [][]c09Tab{c09Tables(r, 2), c09Tables(r, 1), c09Tables(r, 0)}
			b := c09TTC(fonts, 0x00010000)
			mutate("ttc", b, 12+4*3+12+32, 4)
			// collections inside collections, WOFF inside a collection
			inner := append([]byte{}, b...)
			copy(inner[binary.BigEndian.Uint32(inner[12:]):], "ttcf")
			out("ttc/nested", inner)
			inner = append([]byte{}, b...)
			copy(inner[binary.BigEndian.Uint32(inner[16:]):], []byte{0, 0, 1, 0})
			out("ttc/nested", inner)
			wf := c09Woff(r, 0x4f54544f, c09Tables(r, 2))
			tw := []byte("ttcf")
			tw = append(tw, 0, 1, 0, 0, 0, 0, 0, 1, 0, 0, 0, 16)
			tw = append(tw, wf...)
			out("ttc/woff", tw)
			// numFonts boundary values with enough / not enough offsets behind
			for _, nf := range []uint32{0, 1, 2, 3, 4, 2047, 2048, 2049, 4096, 0x40000000, 0x80000000, 0xffffffff} {
				for _, avail := range []int{0, 4, 8, 8188, 8192, 8196} {
					if avail > 16 && !((nf == 2048 && avail == 8188) || (nf == 2049 && avail == 8196)) {
						continue // large headers only where the count and the offsets (nearly) agree
					}
					if avail > 16 && round > 1 {
						continue
					}
					h := []byte("ttcf")
					h = append(h, 0, 1, 0, 0)
					h = append(h, be32(nf)...)
					offs := make([]byte, avail)
					for i := 0; i+4 <= avail; i += 4 {
						binary.BigEndian.PutUint32(offs[i:], uint32(12+avail)) // all members share one directory
					}
					h = append(h, offs...)
					h = append(h, c09Sfnt(0x00010000, c09Tables(r, r.Range(0, 2)), 12+avail)...)
					out("ttc/numfonts", h)
				}
			}
		}
		if round > 0 {
			amplify(round)
		}
		// 5. dfont
		for k := 0; k < 2; k++ {
			fonts := [][]c09Tab{c09Tables(r, 1)}
			if k == 1 {
				fonts = append(fonts, c09Tables(r, 2))
			}
			b := c09Dfont(r, fonts, k)
			mapOff := int(binary.BigEndian.Uint32(b[4:]))
			// header fields
			mutate("dfont/hdr", b, 16, 17) // every value on every header field
			// the resource map: every field
			for p := mapOff + 24; p+2 <= len(b); p += 2 {
				vals := append([]int{}, c09Vals16...)
				vals = append(vals, 28+2+8*(1+k), 28+2+8*(1+k)+1, len(b)-mapOff, len(b)-mapOff-2)
				for _, v := range vals {
					if tier == "quick" && !r.Chance(30) {
						continue
					}
					bb := append([]byte{}, b...)
					binary.BigEndian.PutUint16(bb[p:], uint16(v))
					out("dfont/map16", bb)
				}
			}
			for l := mapOff; l <= len(b); l++ {
				out("dfont/trunc", b[:l])
			}
			// the inner sfnt directory (offsets are relative to the resource): every 32-bit value on every field
			for p := 0x104; p+4 <= 0x104+12+16*len(fonts[0]) && p+4 <= len(b); p += 4 {
				for _, v := range c09Vals32 {
					if tier == "quick" && p < 0x104+12 && !r.Chance(30) {
						continue
					}
					bb := append([]byte{}, b...)
					binary.BigEndian.PutUint32(bb[p:], v)
					out("dfont/inner", bb)
				}
			}
			// a gap between the type list and the reference list, map length anywhere from the type list to the end
			{
				g := c09DfontGap(r, fonts, k, r.Range(1, 6))
				gm := int(binary.BigEndian.Uint32(g[4:]))
				for ml := 28; ml <= len(g)-gm+1; ml++ {
					bb := append([]byte{}, g...)
					binary.BigEndian.PutUint32(bb[12:], uint32(ml))
					out("dfont/gap", bb)
				}
			}
			// map length / offset near the real ones
			for _, d := range []int{-2, -1, 0, 1, 2} {
				bb := append([]byte{}, b...)
				binary.BigEndian.PutUint32(bb[12:], uint32(len(b)-mapOff+d))
				out("dfont/maplen", bb)
				bb = append([]byte{}, b...)
				binary.BigEndian.PutUint32(bb[4:], uint32(mapOff+d))
				out("dfont/mapoff", bb)
			}
		}
	}
	// duplicate tags: the first directory entry wins (sfnt, WOFF, inside a collection)
	for k := 0; k < 3; k++ {
		dup := []c09Tab{{0x68656164, r.Bytes(4)}, {0x6d617870, r.Bytes(2)}, {0x68656164, r.Bytes(6)}, {0x68656164, nil}}
		out("dup", c09Sfnt(0x00010000, dup, 0))
		out("dup", c09Woff(r, 0x00010000, dup))
		out("dup", c09TTC([][]c09Tab{dup, dup[1:]}, 0x4f54544f))
		out("dup", c09Dfont(r, [][]c09Tab{dup}, 0))
	}
	// a reference list that overlaps the type list, in a map that ends exactly with the type list: the font offset
	// is read from the bytes of the first type entry (count-1 = 0, list offset = 2 -> data offset 2)
	for _, d := range []int{-1, 0, 1} {
		font := c09Sfnt(0x00010000, c09Tables(r, 1), 0)
		data := append([]byte{0, 0}, be32(uint32(len(font)))...)
		data = append(data[2:], font...) // the length prefix sits at 0x102, the font at 0x106
		data = append([]byte{0, 0}, data...)
		b := make([]byte, 0x100)
		mapOff := 0x100 + len(data)
		binary.BigEndian.PutUint32(b[0:], 0x100)
		binary.BigEndian.PutUint32(b[4:], uint32(mapOff))
		binary.BigEndian.PutUint32(b[8:], uint32(len(data)))
		binary.BigEndian.PutUint32(b[12:], uint32(28+2+16+d))
		b = append(b, data...)
		mh := make([]byte, 28)
		binary.BigEndian.PutUint16(mh[24:], 28)
		b = append(b, mh...)
		b = append(b, be16(1)...)
		b = append(b, []byte("sfnt")...)
		b = append(b, 0, 0, 0, 2)
		b = append(b, []byte("FOND")...)
		b = append(b, 0, 0, 0, 0)
		out("dfont/overlap", b)
	}
	// 6. random: mutated structured files and raw noise behind a known magic
	for i := 0; i < n; i++ {
		var b []byte
		class := ""
		switch r.Intn(6) {
		case 0:
			b = c09Sfnt(magics[r.Intn(4)], c09Tables(r, r.Range(0, 5)), 0)
			class = "rnd/sfnt"
		case 1:
			b = c09Woff(r, magics[r.Intn(4)], c09Tables(r, r.Range(0, 4)))
			class = "rnd/woff"
		case 2:
			var fonts [][]c09Tab
			for k := r.Range(1, 4); k > 0; k-- {
				fonts = append(fonts, c09Tables(r, r.Range(0, 3)))
			}
			b = c09TTC(fonts, magics[r.Intn(5)])
			class = "rnd/ttc"
		case 3, 4:
			var fonts [][]c09Tab
			for k := r.Range(1, 3); k > 0; k-- {
				fonts = append(fonts, c09Tables(r, r.Range(0, 3)))
			}
			b = c09Dfont(r, fonts, r.Range(0, 2))
			class = "rnd/dfont"
		default:
			b = append(be32(magics[r.Intn(len(magics))]), r.Bytes(r.Range(0, 80))...)
			class = "rnd/noise"
		}
		// mutations: 0..3 field writes, optional truncation
		for k := r.Range(0, 3); k > 0 && len(b) >= 4; k-- {
			hi := len(b) - 4
			p := r.Range(0, hi)
			if class == "rnd/dfont" && r.Chance(70) {
				mo := int(binary.BigEndian.Uint32(b[4:]))
				if mo+24 < hi {
					p = r.Range(mo+24, hi)
				}
			} else if r.Chance(60) && hi > 64 {
				p = r.Range(0, 64)
			}
			if r.Bool() {
				binary.BigEndian.PutUint16(b[p:], uint16(c09Vals16[r.Intn(len(c09Vals16))]))
			} else {
				binary.BigEndian.PutUint32(b[p:], c09Vals32[r.Intn(len(c09Vals32))])
			}
		}
		if r.Chance(20) {
			b = b[:r.Range(0, len(b))]
		}
		out(class, b)
	}
}

func c09cRun(o *vh.Out, inAny any) {
	in := inAny.(c09cInput)
	file := in.File
	rd := bytes.NewReader(file)
	var (
		lds      []*ot.Loader
		err      error
		panicked any
		m0, m1   runtime.MemStats
	)
	// MemStats.TotalAlloc is process-wide: the runtime's own goroutines (GC workers, timers) may allocate during
	// the window, especially on a loaded machine. The call is deterministic, so it is measured twice and the
	// smaller figure is kept (noise only adds).
	alloc := int64(-1)
	for round := 0; round < 2; round++ {
		rd = bytes.NewReader(file)
		runtime.ReadMemStats(&m0)
		func() {
			defer func() { panicked = recover() }()
			lds, err = ot.NewLoaders(rd)
		}()
		runtime.ReadMemStats(&m1)
		if a := int64(m1.TotalAlloc - m0.TotalAlloc); alloc < 0 || a < alloc {
			alloc = a
		}
	}
	status := int64(0)
	if panicked != nil {
		status = 2
	} else if err != nil {
		status = 1
	}
	var details []string
	nraw := 0
	var rawPanic any
	if status == 0 {
		for i, ld := range lds {
			if i >= 3 {
				break
			}
			var secs, raws []string
			for j, s := range ld.VerifSections() {
				secs = append(secs, vh.Tuple(vh.Z(int64(s.Tag)), vh.Z(int64(s.Offset)), vh.Z(int64(s.Length)), vh.Z(int64(s.ZLength))))
				if j >= 6 {
					continue
				}
				var (
					b  []byte
					e  error
					pn any
				)
				rawAlloc := int64(-1)
				for round := 0; round < 2; round++ { // measured twice, see above
					runtime.ReadMemStats(&m0)
					func() {
						defer func() { pn = recover() }()
						b, e = ld.RawTable(s.Tag)
					}()
					runtime.ReadMemStats(&m1)
					if a := int64(m1.TotalAlloc - m0.TotalAlloc); rawAlloc < 0 || a < rawAlloc {
						rawAlloc = a
					}
				}
				st := int64(0)
				if pn != nil {
					st, b, rawPanic = 2, nil, pn
				} else if e != nil {
					st, b = 1, nil
				}
				if s.Length != 0 && s.Length < s.ZLength {
					b = nil // inflated content is not compared (zlib is outside the model)
					o.Count("raw:compressed")
				}
				raws = append(raws, vh.Tuple(vh.Z(int64(s.Tag)), vh.Z(st), vh.BytesLit(b), vh.Z(rawAlloc)))
				o.Count(fmt.Sprintf("raw:status=%d", st))
				nraw++
			}
			details = append(details, vh.App("mkL", vh.Z(int64(ld.Type)), vh.List(secs), vh.List(raws)))
		}
	}
	coq := vh.App("mkCase", vh.BytesLit(file), vh.Z(status), vh.Z(alloc), vh.Zi(len(lds)), vh.List(details))
	key := ""
	if len(file) >= 4 {
		key = vh.BytesLit(file)
	}
	idx := o.Add(in, coq, key, "class="+in.Class, fmt.Sprintf("status=%d", status), fmt.Sprintf("loaders=%d", bucket(len(lds))))
	if rawPanic != nil {
		o.Fail(idx, "panic", fmt.Sprint("RawTable: ", rawPanic))
	}
}

// ---------------------------------------------------------------------------------------------
// c09glyf: tables.ParseLoca + tables.ParseGlyf on synthetic loca / glyf pairs

type c09gInput struct {
	Glyf      []byte `json:"glyf"`
	Loca      []byte `json:"loca"`
	NumGlyphs int    `json:"num_glyphs"`
	Long      bool   `json:"long"`
	Class     string `json:"class"`
}

func c09gGen(r *vh.Rand, tier string, n int, emit func(any)) {
	// the corpus witness of F12 in miniature: offsets 0xFFFF.. into a short table
	emit(c09gInput{Glyf: make([]byte, 24), Loca: []byte{0, 0, 0xff, 0xff, 0xff, 0xff, 0, 12}, NumGlyphs: 3, Long: false, Class: "f12"})
	emit(c09gInput{Glyf: make([]byte, 24), Loca: []byte{0, 0, 0, 12, 0, 0, 0, 0}, NumGlyphs: 1, Long: true, Class: "f12"})
	for i := 0; i < n; i++ {
		// glyf: blocks that ParseGlyph accepts (numberOfContours = 0, instruction length 0 or small), 2-byte aligned
		nblocks := r.Range(0, 6)
		var glyf []byte
		bounds := []int{0}
		for k := 0; k < nblocks; k++ {
			blk := append([]byte{0, 0}, r.Bytes(8)...)
			il := 0
			if r.Chance(25) {
				il = r.Range(1, 4)
			}
			blk = append(blk, be16(il)...)
			blk = append(blk, r.Bytes(il+r.Intn(2)*2)...)
			if len(blk)%2 == 1 {
				blk = append(blk, 0)
			}
			if r.Chance(6) {
				blk[1] = byte(r.Range(1, 3)) // a glyph outside the modelled subset
			}
			glyf = append(glyf, blk...)
			bounds = append(bounds, len(glyf))
		}
		long := r.Bool()
		// offsets: mostly the block boundaries (with repeats = empty glyphs), then perturbations
		var offs []uint32
		for k := 0; k < len(bounds); k++ {
			offs = append(offs, uint32(bounds[k]))
			if r.Chance(25) {
				offs = append(offs, uint32(bounds[k]))
			}
		}
		class := "valid"
		if r.Chance(45) && len(offs) > 0 {
			p := r.Intn(len(offs))
			switch r.Intn(7) {
			case 0:
				offs[p] = uint32(len(glyf)) + uint32(r.Range(1, 4))*2
				class = "beyond"
			case 1:
				if long {
					offs[p] = []uint32{0xffffffff, 0x80000000, 0x7fffffff, 0xfffffffe}[r.Intn(4)]
				} else {
					offs[p] = 2 * uint32([]int{0xffff, 0x8000, 0x7fff}[r.Intn(3)])
				}
				class = "max"
			case 2:
				if p > 0 && offs[p-1] >= 2 {
					offs[p] = offs[p-1] - 2
				}
				class = "decreasing"
			case 3:
				offs[p] = uint32(len(glyf))
				class = "at-end"
			case 4:
				offs[p] += 2 * uint32(r.Range(1, 5))
				class = "shifted"
			case 5:
				offs[p] = 0
				class = "zero"
			default:
				if long {
					offs[p] ^= 1
				}
				class = "odd"
			}
		}
		var loca []byte
		for _, v := range offs {
			if long {
				loca = append(loca, be32(v)...)
			} else {
				loca = append(loca, be16(int(v/2)&0xffff)...)
			}
		}
		ng := len(offs) - 1
		switch r.Intn(12) {
		case 0:
			ng++ // loca too short
			class += "+short"
		case 1:
			if ng > 0 {
				ng-- // trailing offsets unused
			}
		case 2:
			loca = append(loca, r.Bytes(r.Range(1, 3))...)
		case 3:
			if len(loca) > 0 {
				loca = loca[:len(loca)-1]
				class += "+short"
			}
		}
		if ng < 0 {
			ng = 0
		}
		emit(c09gInput{Glyf: glyf, Loca: loca, NumGlyphs: ng, Long: long, Class: class})
	}
}

func c09gRun(o *vh.Out, inAny any) {
	in := inAny.(c09gInput)
	var (
		loca     []uint32
		gl       tables.Glyf
		err1     error
		err2     error
		panicked any
	)
	func() {
		defer func() { panicked = recover() }()
		loca, err1 = tables.ParseLoca(in.Loca, in.NumGlyphs, in.Long)
		if err1 == nil {
			gl, err2 = tables.ParseGlyf(in.Glyf, loca)
		}
	}()
	status := int64(0)
	switch {
	case panicked != nil:
		status = 3
	case err1 != nil:
		status = 1
	case err2 != nil:
		status = 2
	}
	var locaZ []int64
	for _, v := range loca {
		locaZ = append(locaZ, int64(v))
	}
	var glyphs []string
	if status == 0 {
		for _, g := range gl {
			if g.Data == nil {
				glyphs = append(glyphs, "None")
				continue
			}
			nc := int64(0)
			if _, comp := g.Data.(tables.CompositeGlyph); comp {
				nc = -1
			} else if sg, ok := g.Data.(tables.SimpleGlyph); ok {
				nc = int64(len(sg.EndPtsOfContours))
			}
			glyphs = append(glyphs, vh.Some(vh.App("mkGlyphHdr", vh.Z(nc), vh.Z(int64(g.XMin)), vh.Z(int64(g.YMin)), vh.Z(int64(g.XMax)), vh.Z(int64(g.YMax)))))
		}
	}
	coq := vh.App("mkCase", vh.BytesLit(in.Glyf), vh.BytesLit(in.Loca), vh.Zi(in.NumGlyphs), vh.Bool(in.Long),
		vh.Z(status), vh.ZList(locaZ), vh.List(glyphs))
	key := ""
	if in.NumGlyphs > 0 {
		key = coq
	}
	o.Add(in, coq, key, "class="+in.Class, fmt.Sprintf("status=%d", status), fmt.Sprintf("long=%v", in.Long))
}

// ---------------------------------------------------------------------------------------------
// c09cmap4: font.newCmap4 on synthetic format 4 subtables

type c09mInput struct {
	End    []uint16 `json:"end"`
	Start  []uint16 `json:"start"`
	Delta  []uint16 `json:"delta"`
	Offset []uint16 `json:"offset"`
	Glyphs []byte   `json:"glyphs"`
	Class  string   `json:"class"`
}

func c09mGen(r *vh.Rand, tier string, n int, emit func(any)) {
	// F11 witness: two segments, idRangeOffset 2 on the first one points one entry before the glyph array
	emit(c09mInput{End: []uint16{0x41, 0xffff}, Start: []uint16{0x41, 0xffff}, Delta: []uint16{0, 1}, Offset: []uint16{2, 0}, Class: "f11"})
	// overlapping / maximal segments around the limit of 2^16 resolved indexes (constant glyph arrays: printed compactly)
	big := func(class string, counts []int, arrEntries int) {
		in := c09mInput{Class: class, Glyphs: bytes.Repeat([]byte{1}, 2*arrEntries)}
		for s, c := range counts {
			in.Start = append(in.Start, 0)
			in.End = append(in.End, uint16(c-1))
			in.Delta = append(in.Delta, 0)
			in.Offset = append(in.Offset, uint16(2*(len(counts)-s))) // every segment starts at glyph array index 0
		}
		emit(in)
	}
	big("overlap", []int{32768, 32768}, 32768)        // exactly 65536: accepted
	big("overlap", []int{32768, 32769}, 32769)        // 65537: rejected
	big("overlap", []int{22000, 22000, 22000}, 22000) // rejected at the third segment
	big("overlap", []int{65536}, 65536)               // the full range in one segment (the count used to wrap to 0)
	big("overlap", []int{65535, 1}, 65535)
	big("overlap", []int{65535, 2}, 65535)
	for i := 0; i < n; i++ {
		seg := r.Range(1, 5)
		in := c09mInput{Class: "valid"}
		nglyphs := r.Range(0, 12)
		in.Glyphs = r.Bytes(2*nglyphs + r.Intn(2))
		cur := r.Range(0, 40)
		for s := 0; s < seg; s++ {
			start := cur + r.Range(0, 5)
			end := start + r.Range(0, 4)
			cur = end + 1
			off := 0
			if r.Chance(65) {
				// valid: points at position q of the glyph array: off/2 + s - seg = q
				q := 0
				if nglyphs > 0 {
					q = r.Intn(nglyphs)
				}
				off = 2 * (q + seg - s)
			}
			in.End = append(in.End, uint16(end))
			in.Start = append(in.Start, uint16(start))
			in.Delta = append(in.Delta, uint16(r.Intn(65536)))
			in.Offset = append(in.Offset, uint16(off))
		}
		if r.Chance(50) {
			in.End[seg-1], in.Start[seg-1] = 0xffff, 0xffff
			if r.Chance(30) {
				in.Offset[seg-1] = 0xffff
			}
		}
		if r.Chance(50) {
			s := r.Intn(seg)
			switch r.Intn(8) {
			case 0:
				in.Offset[s] = uint16(2 * r.Range(0, seg-s)) // at or before the start of the glyph array
				in.Class = "before"
			case 1:
				in.Offset[s] = uint16(2*(nglyphs+seg-s) + 2*r.Range(-2, 2)) // around the end
				in.Class = "end"
			case 2:
				in.Offset[s] = []uint16{1, 3, 0xffff, 0xfffe, 0x8000, 0x7fff}[r.Intn(6)]
				in.Class = "extreme"
			case 3:
				in.End[s], in.Start[s] = in.Start[s], in.End[s]+1 // end < start: uint16 wrap of the count
				in.Class = "reversed"
			case 4:
				in.Start[s] = 0
				in.End[s] = uint16(r.Range(0, 20))
				in.Class = "wide"
			case 5:
				in.Offset[s] |= 1
				in.Class = "odd"
			case 6:
				in.End[s] = in.Start[s] - 1 // count wraps to 0
				in.Class = "empty"
			default:
				in.Glyphs = in.Glyphs[:r.Range(0, len(in.Glyphs))]
				in.Class = "short-array"
			}
		}
		emit(in)
	}
}

func c09mRun(o *vh.Out, inAny any) {
	in := inAny.(c09mInput)
	cm := tables.CmapSubtable4{EndCode: in.End, StartCode: in.Start, IdDelta: in.Delta, IdRangeOffsets: in.Offset, GlyphIDArray: in.Glyphs}
	var (
		es       []font.VerifCmap4Entry
		err      error
		panicked any
	)
	func() {
		defer func() { panicked = recover() }()
		es, err = font.VerifNewCmap4Checked(cm)
	}()
	status := int64(0)
	if panicked != nil {
		status = 2
	} else if err != nil {
		status = 1
	}
	u16 := func(xs []uint16) string {
		z := make([]int64, len(xs))
		for i, x := range xs {
			z[i] = int64(x)
		}
		return vh.ZList(z)
	}
	constant16 := func(xs []uint16) bool {
		for _, x := range xs {
			if x != xs[0] {
				return false
			}
		}
		return len(xs) > 256
	}
	var ents []string
	for _, e := range es {
		ix := "None"
		if e.HasIndexes {
			if constant16(e.Indexes) {
				ix = vh.Some(vh.App("zrep", vh.Z(int64(e.Indexes[0])), vh.Zi(len(e.Indexes))))
			} else {
				ix = vh.Some(u16(e.Indexes))
			}
		}
		ents = append(ents, vh.App("mkEntry16", vh.Z(int64(e.End)), vh.Z(int64(e.Start)), vh.Z(int64(e.Delta)), ix))
	}
	glyphs := vh.BytesLit(in.Glyphs)
	if len(in.Glyphs) > 256 && len(bytes.Trim(in.Glyphs, string(in.Glyphs[:1]))) == 0 {
		glyphs = vh.App("zrep", vh.Z(int64(in.Glyphs[0])), vh.Zi(len(in.Glyphs)))
	}
	coq := vh.App("mkCase", u16(in.End), u16(in.Start), u16(in.Delta), u16(in.Offset), glyphs, vh.Z(status), vh.List(ents))
	o.Add(in, coq, coq, "class="+in.Class, fmt.Sprintf("status=%d", status), fmt.Sprintf("segs=%d", len(in.End)))
}
