package main

import (
	"encoding/json"
	"fmt"
	"sort"

	"github.com/go-text/typesetting/font"
	hb "github.com/go-text/typesetting/harfbuzz"
	"github.com/go-text/typesetting/language"

	"verifharness/internal/vh"
)

// ---- c01eng: the cluster bookkeeping glue of the shaping engine against Model/Engine.v --------------
// The real setUnicodeProps / insertDottedCircle / formClusters / ensureNativeDirection / otShapeNormalize /
// ensureMonotoneClusters / hideDefaultIgnorables (and AddRunes with its contexts) are run on a buffer in a given state,
// with a font reduced to a cmap and a shaper whose decompose / compose tables, normalization mode and reorderMarks are
// part of the case.

type engVariant struct {
	R   int32  `json:"r"`
	S   int32  `json:"s"`
	G   uint32 `json:"g"`
	Def bool   `json:"def,omitempty"`
}
type engEnv struct {
	Cmap     map[string]uint32 `json:"cmap"` // rune (decimal) -> glyph
	Variants []engVariant      `json:"variants,omitempty"`
	Decomp   [][3]int32        `json:"decomp,omitempty"` // ab, a, b
	Comp     [][3]int32        `json:"comp,omitempty"`   // a, b, ab
	Mode     int               `json:"mode"`
	Reorder  int               `json:"reorder"`
}
type engState struct {
	Buf       bufState `json:"buf"`
	Pre       []int32  `json:"pre,omitempty"`
	Post      []int32  `json:"post,omitempty"`
	Scratch   uint32   `json:"scratch,omitempty"`
	Dir       int      `json:"dir"`
	Script    uint32   `json:"script"`
	Invisible uint32   `json:"invisible,omitempty"`
	NotFound  uint32   `json:"notfound,omitempty"`
}
type engStage struct {
	Name string  `json:"stage"`
	Asc  bool    `json:"asc,omitempty"`
	Text []int32 `json:"text,omitempty"`
	A    int     `json:"a,omitempty"` // addrunes: offset; addrune: rune
	C    int     `json:"c,omitempty"` // addrunes: length; addrune: cluster
}
type engInput struct {
	Env    engEnv     `json:"env"`
	Init   engState   `json:"init"`
	Stages []engStage `json:"stages"`
}

func init() {
	drivers["c01eng"] = &driver{
		header: "From TV Require Import Check.C01Eng.",
		shard:  120,
		n: func(tier string) int {
			if tier == "quick" {
				return 1500
			}
			return 15000
		},
		decode: func(raw json.RawMessage) (any, error) {
			var in engInput
			err := json.Unmarshal(raw, &in)
			return in, err
		},
		gen: engGen,
		run: engRun,
	}
}

func (e engEnv) toVerif() *hb.VerifEnv {
	v := &hb.VerifEnv{Cmap: map[rune]hb.GID{}, Decomp: map[rune][2]rune{}, Comp: map[[2]rune]rune{}, Mode: uint8(e.Mode), Reorder: e.Reorder}
	for k, g := range e.Cmap {
		var r int
		fmt.Sscanf(k, "%d", &r)
		v.Cmap[rune(r)] = hb.GID(g)
	}
	for _, x := range e.Variants {
		v.Variants = append(v.Variants, font.VerifVariant{Rune: rune(x.R), Selector: rune(x.S), Glyph: font.GID(x.G), UseDefault: x.Def})
	}
	for _, d := range e.Decomp {
		v.Decomp[rune(d[0])] = [2]rune{rune(d[1]), rune(d[2])}
	}
	for _, c := range e.Comp {
		v.Comp[[2]rune{rune(c[0]), rune(c[1])}] = rune(c[2])
	}
	return v
}

func toRunes(xs []int32) []rune {
	out := make([]rune, len(xs))
	for i, x := range xs {
		out[i] = rune(x)
	}
	return out
}
func fromRunes(xs []rune) []int32 {
	out := make([]int32, len(xs))
	for i, x := range xs {
		out[i] = int32(x)
	}
	return out
}

func (s engState) toVerif() hb.VerifEState {
	return hb.VerifEState{VerifState: toVerif(s.Buf), Pre: toRunes(s.Pre), Post: toRunes(s.Post), Scratch: s.Scratch,
		Dir: hb.Direction(s.Dir), Script: language.Script(s.Script), Invisible: hb.GID(s.Invisible), NotFound: hb.GID(s.NotFound)}
}
func engFromVerif(s hb.VerifEState) engState {
	return engState{Buf: fromVerif(s.VerifState), Pre: fromRunes(s.Pre), Post: fromRunes(s.Post), Scratch: s.Scratch,
		Dir: int(s.Dir), Script: uint32(s.Script), Invisible: uint32(s.Invisible), NotFound: uint32(s.NotFound)}
}

func coqEState(s engState) string {
	fl := hb.ShappingOptions(s.Buf.Flags)
	sc := s.Scratch
	return vh.App("mkE", coqState(s.Buf), coqList32(s.Pre), coqList32(s.Post),
		vh.Bool(sc&1 != 0), vh.Bool(sc&2 != 0), vh.Bool(sc&16 != 0), vh.Bool(sc&4 != 0),
		vh.Bool(fl&hb.Bot != 0), vh.Bool(fl&hb.PreserveDefaultIgnorables != 0), vh.Bool(fl&hb.RemoveDefaultIgnorables != 0),
		vh.Bool(fl&hb.DoNotinsertDottedCircle != 0), vh.Zi(s.Dir), vh.Zi(int(s.Invisible)), vh.Zi(int(s.NotFound)))
}

// every rune the model may ask about: the runes of the case, closed under the decompose and compose tables
func engRunes(in engInput) []int32 {
	set := map[int32]bool{9676: true, 32: true, 8208: true}
	add := func(xs []int32) {
		for _, x := range xs {
			set[x] = true
		}
	}
	for _, g := range in.Init.Buf.Info {
		set[g.P] = true
	}
	for _, g := range in.Init.Buf.Out {
		set[g.P] = true
	}
	for _, st := range in.Stages {
		add(st.Text)
		if st.Name == "addrune" {
			set[int32(st.A)] = true
		}
	}
	for _, d := range in.Env.Decomp {
		add(d[:])
	}
	for _, c := range in.Env.Comp {
		add(c[:])
	}
	for k := range in.Env.Cmap {
		var r int
		fmt.Sscanf(k, "%d", &r)
		set[int32(r)] = true
	}
	out := make([]int32, 0, len(set))
	for r := range set {
		out = append(out, r)
	}
	sort.Slice(out, func(i, j int) bool { return out[i] < out[j] })
	return out
}

func coqEnv(in engInput) string {
	var unis []string
	for _, r := range engRunes(in) {
		u := hb.VerifUnicode(rune(r))
		g, has := in.Env.Cmap[fmt.Sprint(r)]
		unis = append(unis, vh.App("mkU", vh.Zi(int(r)), vh.Zi(int(u.GenCat)), vh.Bool(u.DefaultIgnorable), vh.Zi(int(u.Mcc)),
			vh.Bool(u.ExtPict), vh.Zi(int(u.Space)), vh.Zi(int(g)), vh.Bool(has)))
	}
	var dec, comp, vars, mcm []string
	for _, d := range in.Env.Decomp {
		dec = append(dec, vh.Tuple(vh.Zi(int(d[0])), vh.Zi(int(d[1])), vh.Zi(int(d[2]))))
	}
	for _, c := range in.Env.Comp {
		comp = append(comp, vh.Tuple(vh.Zi(int(c[0])), vh.Zi(int(c[1])), vh.Zi(int(c[2]))))
	}
	for _, x := range in.Env.Variants {
		g, ok := x.G, true
		if x.Def { // VariantUseDefault: the nominal glyph of the rune
			g, ok = in.Env.Cmap[fmt.Sprint(x.R)]
		}
		vars = append(vars, vh.Tuple(vh.Zi(int(x.R)), vh.Zi(int(x.S)), vh.Zi(int(g)), vh.Bool(ok)))
	}
	for _, r := range hb.VerifModifierCombiningMarks() {
		mcm = append(mcm, vh.Zi(int(r)))
	}
	horiz := int(hb.VerifHorizontalDirection(language.Script(in.Init.Script)))
	return vh.App("mkEnv", vh.List(unis), vh.List(dec), vh.List(comp), vh.List(vars), vh.Zi(in.Env.Mode), vh.Zi(in.Env.Reorder),
		vh.List(mcm), vh.Zi(horiz))
}

func engApply(b *hb.Buffer, env *hb.VerifEnv, st engStage) (panicked any) {
	defer func() { panicked = recover() }()
	switch st.Name {
	case "addrunes":
		text := toRunes(st.Text)
		b.AddRunes(text[:len(text):len(text)], st.A, st.C)
	case "addrune":
		b.AddRune(rune(st.A), st.C)
	default:
		hb.VerifStage(b, env, st.Name, st.Asc)
	}
	return nil
}

func coqStage(st engStage, capAfter int) string {
	switch st.Name {
	case "setprops":
		return "SSetProps"
	case "dotted":
		return "SDotted"
	case "form":
		return "SForm"
	case "native":
		return "SNative"
	case "normalize":
		return "SNormalize"
	case "hide":
		return "SHide"
	case "emc":
		return vh.App("SEmc", vh.Bool(st.Asc))
	case "pregsub":
		return "SPreGsub"
	case "addrunes":
		return vh.App("SAddRunes", coqList32(st.Text), vh.Zi(st.A), vh.Zi(st.C), vh.Zi(capAfter))
	case "addrune":
		return vh.App("SAddRune", vh.Zi(st.A), vh.Zi(st.C), vh.Zi(capAfter))
	}
	panic("unknown stage " + st.Name)
}

func engRun(o *vh.Out, inAny any) {
	in := inAny.(engInput)
	env := in.Env.toVerif()
	b := hb.VerifNewEBuffer(in.Init.toVerif())
	var steps, classes []string
	for _, st := range in.Stages {
		p := engApply(b, env, st)
		classes = append(classes, "stage:"+st.Name)
		if p != nil {
			steps = append(steps, vh.Tuple(coqStage(st, 0), "EPanic"))
			classes = append(classes, "panic")
			break
		}
		cur := engFromVerif(b.VerifEState())
		steps = append(steps, vh.Tuple(coqStage(st, cur.Buf.PosCap), vh.App("EState", coqEState(cur))))
	}
	coq := vh.App("mkCase", coqEnv(in), coqEState(in.Init), vh.List(steps))
	key := coq
	if len(in.Stages) == 0 {
		key = ""
	}
	classes = append(classes, fmt.Sprintf("level=%d", in.Init.Buf.Level), fmt.Sprintf("mode=%d", in.Env.Mode), fmt.Sprintf("reorder=%d", in.Env.Reorder))
	o.Add(in, coq, key, classes...)
}

// ---- generation ----

var engPool = []int32{
	'a', 'e', 'o', 'A', 'B', '1', '7', ' ', 0xA0, 0x2003, 0x2011, 0xAD,
	0x00E9, 0x00C5, 0x01D6, 0x1E69, 0x212B, 0x0344, // precomposed (one and several levels), singleton, mark decomposing into two marks
	0x0300, 0x0301, 0x0308, 0x0323, 0x0327, 0x0304, 0x0338, 0x093C, 0x0334, // marks: ccc 230, 220, 202, 1, 7
	0x034F, 0x200C, 0x200D, 0xFE0F, 0xFE00, 0xE0100, 0x180B, 0xE0020, 0xFF9E, // CGJ, joiners, selectors, FVS, tag, halfwidth
	0x1F1E6, 0x1F1E7, 0x1F1E8, 0x1F3FB, 0x2764, 0x1F600, // regional indicators, emoji modifier, pictographs
	0x05D0, 0x05D1, 0x05B7, 0x05B8, 0x05B0, 0x05B4, 0x05BD, 0x0591, 0xFB2E, // Hebrew letters, patah, qamats, sheva, hiriq, meteg, accent, alef+patah
	0x0627, 0x0628, 0x064B, 0x0651, 0x0654, 0x0655, 0x06DC, 0x0670, 0x0653, 0x0622, 0x0660, // Arabic letters, marks, modifier marks, digit
	0x0915, 0x093F, 0x094D, 0x09C7, 0x09BE, 0x09CB, 0x1100, 0x1161, 0xAC00, 0x25CC, 0x10FFFF, 0x0378,
}

func engEnvGen(r *vh.Rand, runes []int32) engEnv {
	env := engEnv{Cmap: map[string]uint32{}, Mode: []int{4, 4, 4, 0, 1, 2, 3}[r.Intn(7)], Reorder: []int{0, 0, 1, 2}[r.Intn(4)]}
	// decompose: the Unicode decompositions of the runes involved (closed), plus a few invented ones on capital letters
	seen := map[int32]bool{}
	var closure []int32
	var visit func(x int32)
	visit = func(x int32) {
		if seen[x] {
			return
		}
		seen[x] = true
		closure = append(closure, x)
		if a, b, ok := hb.VerifDecompose(rune(x)); ok && r.Chance(92) {
			env.Decomp = append(env.Decomp, [3]int32{x, int32(a), int32(b)})
			visit(int32(a))
			if b != 0 {
				visit(int32(b))
			}
		}
	}
	for _, x := range runes {
		visit(x)
	}
	for _, x := range []int32{9676, 32, 8208} {
		visit(x)
	}
	if r.Chance(25) { // an invented decomposition of 'A' or 'B' into runes that do not decompose further
		plain := []int32{'a', 'e', 'o', 0x0301, 0x0323, 0x0308, 0x05B7}
		ab := []int32{'A', 'B'}[r.Intn(2)]
		if seen[ab] {
			a, b := plain[r.Intn(len(plain))], plain[r.Intn(len(plain))]
			if r.Chance(30) {
				b = 0
			}
			env.Decomp = append(env.Decomp, [3]int32{ab, a, b})
			visit(a)
			if b != 0 {
				visit(b)
			}
		}
	}
	// compose: the Unicode compositions of all pairs, closed (three rounds), plus an invented one
	for round := 0; round < 3; round++ {
		n := len(closure)
		for i := 0; i < n; i++ {
			for j := 0; j < n; j++ {
				a, b := closure[i], closure[j]
				if ab, ok := hb.VerifCompose(rune(a), rune(b)); ok {
					dup := false
					for _, c := range env.Comp {
						if c[0] == a && c[1] == b {
							dup = true
						}
					}
					if !dup && (round > 0 || r.Chance(92)) {
						env.Comp = append(env.Comp, [3]int32{a, b, int32(ab)})
						if !seen[int32(ab)] {
							seen[int32(ab)] = true
							closure = append(closure, int32(ab))
						}
					}
				}
			}
		}
	}
	if r.Chance(15) && len(closure) > 1 {
		a, b := closure[r.Intn(len(closure))], closure[r.Intn(len(closure))]
		// the table is a function of the pair (the hook stores it in a map): an invented composition replaces the
		// Unicode one of the same pair
		kept := env.Comp[:0]
		for _, c := range env.Comp {
			if !(c[0] == a && c[1] == b) {
				kept = append(kept, c)
			}
		}
		env.Comp = append(kept, [3]int32{a, b, 'B'})
		if !seen['B'] {
			seen['B'] = true
			closure = append(closure, 'B')
		}
	}
	// cmap: most runes have a glyph
	have := r.Range(55, 100)
	if r.Chance(6) {
		have = 0
	}
	for i, x := range closure {
		if r.Chance(have) {
			env.Cmap[fmt.Sprint(x)] = uint32(100 + i)
		}
	}
	// variation sequences over the selectors of the pool
	for _, x := range closure {
		for _, s := range []int32{0xFE0F, 0xFE00, 0xE0100} {
			if seen[s] && r.Chance(20) {
				env.Variants = append(env.Variants, engVariant{R: x, S: s, G: uint32(r.Range(500, 520)), Def: r.Chance(30)})
			}
		}
	}
	return env
}

var engScripts = []language.Script{0, language.Latin, language.Arabic, language.Hebrew, language.Common, language.Devanagari}

func engText(r *vh.Rand) []int32 {
	n := r.Range(0, 9)
	if r.Chance(6) {
		n = r.Range(10, 40)
	}
	text := make([]int32, n)
	marks := []int32{0x0300, 0x0301, 0x0308, 0x0323, 0x0327, 0x05B7, 0x05B0, 0x05BD, 0x064B, 0x0651, 0x0654, 0x0655, 0x034F, 0x0334}
	for i := range text {
		if r.Chance(40) {
			text[i] = marks[r.Intn(len(marks))]
		} else {
			text[i] = engPool[r.Intn(len(engPool))]
		}
	}
	if r.Chance(18) {
		// sequences the reorderMarks of the Hebrew and Arabic shapers act on: patah|qamats, sheva|hiriq, meteg|below;
		// shadda / fathatan followed by modifier combining marks of class 220 / 230
		seqs := [][]int32{
			{0x05D0, 0x05B7, 0x05B0, 0x05BD}, {0x05D1, 0x05B8, 0x05B4, 0x0323}, {0x05D0, 0x05BD, 0x05B0, 0x05B7},
			{0x0628, 0x0651, 0x0655}, {0x0628, 0x064B, 0x0654, 0x06DC}, {0x0627, 0x0651, 0x0655, 0x0654}, {0x0628, 0x0655, 0x0651},
			{0x1F1E6, 0x1F1E7, 0x1F1E8, 0x1F1E6}, {0x1F1E7, 0x1F1E8, 0x1F1E6}, {0x2764, 0x200D, 0x1F600, 0x1F3FB}, {0x0915, 0x200D, 0x2764},
		}
		q := seqs[r.Intn(len(seqs))]
		at := r.Intn(len(text) + 1)
		text = append(text[:at:at], append(append([]int32(nil), q...), text[at:]...)...)
		n = len(text)
	}
	if n > 34 && r.Chance(60) { // a long run of marks: the reorder round skips it
		for i := 1; i < n; i++ {
			text[i] = marks[r.Intn(len(marks))]
		}
	}
	return text
}

func engGen(r *vh.Rand, tier string, n int, emit func(any)) {
	for i := 0; i < n; i++ {
		var in engInput
		level := []int{0, 0, 1, 1, 2}[r.Intn(5)]
		flags := uint16(0)
		for _, f := range []hb.ShappingOptions{hb.Bot, hb.Bot, hb.Eot, hb.PreserveDefaultIgnorables, hb.RemoveDefaultIgnorables, hb.DoNotinsertDottedCircle, hb.ProduceUnsafeToConcat} {
			if r.Chance(35) {
				flags |= uint16(f)
			}
		}
		in.Init = engState{Buf: bufState{Level: level, Flags: flags}, Dir: []int{4, 4, 5, 5, 6, 7, 0}[r.Intn(7)],
			Script: uint32(engScripts[r.Intn(len(engScripts))])}
		if r.Chance(15) {
			in.Init.Invisible = uint32(r.Range(1, 9))
		}
		if r.Chance(15) {
			in.Init.NotFound = uint32(r.Range(1, 9))
		}
		if r.Chance(62) {
			// the life of a buffer: AddRunes (an item of a text), the stages of shape() before substitution, the safety net,
			// the removal of default ignorables
			text := engText(r)
			off := r.Range(0, len(text))
			ln := r.Range(0, len(text)-off)
			if r.Chance(40) {
				off, ln = 0, len(text)
			}
			if r.Chance(10) {
				ln = -1
			}
			in.Stages = append(in.Stages, engStage{Name: "addrunes", Text: text, A: off, C: ln})
			if r.Chance(8) {
				in.Stages = append(in.Stages, engStage{Name: "addrune", A: int(engPool[r.Intn(len(engPool))]), C: len(text) + r.Range(0, 2)})
			}
			if r.Chance(45) {
				in.Stages = append(in.Stages, engStage{Name: "pregsub"})
			} else {
				for _, s := range []string{"setprops", "dotted", "form", "native", "normalize"} {
					in.Stages = append(in.Stages, engStage{Name: s})
				}
			}
			if r.Chance(50) {
				in.Stages = append(in.Stages, engStage{Name: "emc", Asc: r.Chance(70)})
			}
			if r.Chance(60) {
				in.Stages = append(in.Stages, engStage{Name: "hide"})
			}
			in.Env = engEnvGen(r, text)
		} else {
			// one or two stages on an arbitrary buffer: glyphs with unicode props already set (and possibly inconsistent with
			// the code points), clusters monotone or not
			st := bufRandomInit(r)
			st.Level, st.Flags = level, flags
			runes := make([]int32, len(st.Info))
			for k := range st.Info {
				st.Info[k].P = engPool[r.Intn(len(engPool))]
				runes[k] = st.Info[k].P
				if r.Chance(70) {
					u := hb.VerifUnicode(rune(st.Info[k].P))
					st.Info[k].U = uint16(u.GenCat)
					if u.GenCat >= 10 && u.GenCat <= 12 {
						st.Info[k].U |= 0x80 | uint16(u.Mcc)<<8
					}
					if u.DefaultIgnorable {
						st.Info[k].U |= 0x20
						if st.Info[k].P == 0x200D {
							st.Info[k].U |= 0x100 | 0x80
						}
						if st.Info[k].P == 0x034F {
							st.Info[k].U |= 0x40
						}
					}
				}
				if r.Chance(8) {
					st.Info[k].Q = 0x10 // substituted
				}
			}
			stage := []string{"form", "native", "normalize", "normalize", "hide", "hide", "emc", "emc", "dotted", "setprops"}[r.Intn(10)]
			if stage == "emc" && r.Chance(75) && len(st.Info) > 1 { // clusters out of order
				for k := 0; k < 1+r.Intn(3); k++ {
					a, b := r.Intn(len(st.Info)), r.Intn(len(st.Info))
					st.Info[a].C, st.Info[b].C = st.Info[b].C, st.Info[a].C
				}
			}
			in.Init.Buf = st
			in.Init.Scratch = uint32(r.Intn(32))
			if r.Chance(70) {
				in.Init.Scratch |= 3
			}
			if r.Chance(30) {
				in.Init.Pre = []int32{'x'}
			}
			if stage == "setprops" || r.Chance(20) {
				in.Stages = append(in.Stages, engStage{Name: "setprops"})
			}
			if stage != "setprops" {
				in.Stages = append(in.Stages, engStage{Name: stage, Asc: r.Bool()})
			}
			if r.Chance(25) {
				in.Stages = append(in.Stages, engStage{Name: []string{"emc", "hide", "native"}[r.Intn(3)], Asc: r.Bool()})
			}
			in.Env = engEnvGen(r, runes)
		}
		emit(in)
	}
}
