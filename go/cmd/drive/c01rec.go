package main

import (
	"bytes"
	"encoding/json"
	"fmt"
	"os"
	"os/exec"
	"strings"
	"time"

	"github.com/go-text/typesetting-utils/opentype"
	"github.com/go-text/typesetting/font"
	ot "github.com/go-text/typesetting/font/opentype"
	hb "github.com/go-text/typesetting/harfbuzz"

	"verifharness/internal/vh"
)

// ---- c01rec: the recursion budget of the OpenType layout engine ---------------------------------

type c01RecInput struct {
	Kind   string     `json:"kind"` // stub | e2e
	Table  [][]uint16 `json:"table,omitempty"`
	Start  uint16     `json:"start,omitempty"`
	MaxOps int        `json:"max_ops,omitempty"`
	// e2e: which self-referencing layout table to splice into Roboto
	Variant string `json:"variant,omitempty"`
}

const c01ChildEnv = "VERIF_C01_CHILD"

func init() {
	// child mode of the end-to-end regression: shape with the spliced font and exit
	if v := os.Getenv(c01ChildEnv); v != "" {
		c01RecChild(v)
		os.Exit(0)
	}
	drivers["c01rec"] = &driver{
		header: "From TV Require Import Check.C01Rec.",
		shard:  400,
		n: func(tier string) int {
			if tier == "quick" {
				return 600
			}
			return 6000
		},
		decode: func(raw json.RawMessage) (any, error) {
			var in c01RecInput
			err := json.Unmarshal(raw, &in)
			return in, err
		},
		gen: c01RecGen,
		run: c01RecRun,
	}
}

func c01RecGen(r *vh.Rand, tier string, n int, emit func(any)) {
	emit(c01RecInput{Kind: "e2e", Variant: "self"})
	emit(c01RecInput{Kind: "e2e", Variant: "mutual"})
	// the self-referencing lookup (F1), mutual recursion, fan-out
	emit(c01RecInput{Kind: "stub", Table: [][]uint16{{0}}, Start: 0, MaxOps: 16384})
	emit(c01RecInput{Kind: "stub", Table: [][]uint16{{1}, {0}}, Start: 0, MaxOps: 16384})
	emit(c01RecInput{Kind: "stub", Table: [][]uint16{{0, 0}}, Start: 0, MaxOps: 100})
	emit(c01RecInput{Kind: "stub", Table: [][]uint16{{0, 0, 0}}, Start: 0, MaxOps: 100000})
	for ops := -1; ops <= 3; ops++ {
		emit(c01RecInput{Kind: "stub", Table: [][]uint16{{0, 0}}, Start: 0, MaxOps: ops})
	}
	for i := 0; i < n; i++ {
		k := r.Range(1, 4)
		t := make([][]uint16, k)
		for j := range t {
			m := r.Range(0, 3)
			for q := 0; q < m; q++ {
				t[j] = append(t[j], uint16(r.Range(0, k))) // k itself: a lookup index outside the table
			}
		}
		ops := r.Range(-2, 40)
		if r.Chance(30) {
			ops = r.Range(100, 3000)
		}
		emit(c01RecInput{Kind: "stub", Table: t, Start: uint16(r.Range(0, k-1)), MaxOps: ops})
	}
}

// c01RecursiveGSUB builds a GSUB table: DFLT/ccmp -> lookup 0 = ContextSubst format 3 on glyph g whose only
// SequenceLookupRecord is (0, lookup next0); "mutual" adds a second lookup pointing back to lookup 0.
func c01RecursiveGSUB(g uint16, mutual bool) []byte {
	var b []byte
	u16 := func(v int) { b = append(b, byte(v>>8), byte(v)) }
	tag := func(s string) { b = append(b, s...) }
	nl := 1
	if mutual {
		nl = 2
	}
	u16(1)
	u16(0)
	u16(10)
	u16(30)
	u16(44) // header: script list @10, feature list @30, lookup list @44
	// ScriptList
	u16(1)
	tag("DFLT")
	u16(8)
	u16(4)
	u16(0) // Script: defaultLangSys @4, no other LangSys
	u16(0)
	u16(0xFFFF)
	u16(1)
	u16(0) // LangSys: feature 0
	// FeatureList
	u16(1)
	tag("ccmp")
	u16(8)
	u16(0)
	u16(1)
	u16(0) // Feature: lookup 0
	// LookupList
	u16(nl)
	hdr := 2 + 2*nl
	const lookupSize = 8 + 12 + 6
	for i := 0; i < nl; i++ {
		u16(hdr + i*lookupSize)
	}
	for i := 0; i < nl; i++ {
		next := 0
		if mutual {
			next = 1 - i
		}
		u16(5)
		u16(0)
		u16(1)
		u16(8) // Lookup: type 5 (context), one subtable @8
		u16(3)
		u16(1)
		u16(1)
		u16(12) // ContextSubst format 3: 1 glyph, 1 record, coverage @12
		u16(0)
		u16(next) // SequenceLookupRecord(sequenceIndex 0, lookup next)
		u16(1)
		u16(1)
		u16(int(g)) // Coverage format 1: glyph g
	}
	return b
}

func c01RecChild(variant string) {
	data, err := opentype.Files.ReadFile("common/Roboto-BoldItalic.ttf")
	if err != nil {
		fmt.Println("CHILD-ERROR", err)
		os.Exit(3)
	}
	ld, err := ot.NewLoader(bytes.NewReader(data))
	if err != nil {
		fmt.Println("CHILD-ERROR", err)
		os.Exit(3)
	}
	face0, err := font.ParseTTF(bytes.NewReader(data))
	if err != nil {
		fmt.Println("CHILD-ERROR", err)
		os.Exit(3)
	}
	gid, _ := face0.NominalGlyph('a')
	var tabs []ot.Table
	for _, tg := range ld.Tables() {
		content, err := ld.RawTable(tg)
		if err != nil {
			fmt.Println("CHILD-ERROR", err)
			os.Exit(3)
		}
		if tg == ot.MustNewTag("GSUB") {
			content = c01RecursiveGSUB(uint16(gid), variant == "mutual")
		}
		tabs = append(tabs, ot.Table{Tag: tg, Content: content})
	}
	file := ot.WriteTTF(tabs)
	face, err := font.ParseTTF(bytes.NewReader(file))
	if err != nil {
		fmt.Println("CHILD-ERROR parse", err)
		os.Exit(3)
	}
	if len(face.GSUB.Lookups) == 0 {
		fmt.Println("CHILD-ERROR spliced GSUB has no lookup")
		os.Exit(3)
	}
	buf := hb.NewBuffer()
	buf.AddRunes([]rune("aXa"), 0, -1)
	buf.GuessSegmentProperties()
	buf.Shape(hb.NewFont(face), nil)
	fmt.Println("CHILD-OK glyphs", len(buf.Info))
}

func c01RecRun(o *vh.Out, inAny any) {
	in := inAny.(c01RecInput)
	if in.Kind == "e2e" {
		// a stack overflow is fatal, not recoverable: run the shaping in a child process under a timeout
		exe, err := os.Executable()
		if err != nil {
			panic(err)
		}
		cmd := exec.Command(exe)
		cmd.Env = append(os.Environ(), c01ChildEnv+"="+in.Variant)
		var outb bytes.Buffer
		cmd.Stdout, cmd.Stderr = &outb, &outb
		done := make(chan error, 1)
		if err := cmd.Start(); err != nil {
			panic(err)
		}
		go func() { done <- cmd.Wait() }()
		status := "ok"
		select {
		case err := <-done:
			if err != nil || !strings.Contains(outb.String(), "CHILD-OK") {
				status = "died"
			}
		case <-time.After(60 * time.Second):
			cmd.Process.Kill()
			status = "timeout"
		}
		// recorded as a trivially consistent stub case so that the shard stays well-formed
		coq := vh.App("mkCase", "[[]]", "0", "0", "0", "0", "(-1)", vh.Z(int64(hb.VerifMaxNestingLevel)), "false", "false",
			vh.List([]string{vh.Z(int64(hb.VerifMaxNestingLevel))}))
		idx := o.Add(in, coq, "e2e:"+in.Variant, "e2e")
		if status != "ok" {
			msg := outb.String()
			if i := strings.Index(msg, "\n\n"); i > 0 && i < 400 {
				msg = msg[:i]
			} else if len(msg) > 400 {
				msg = msg[:400]
			}
			o.Fail(idx, "recursion-"+status, "shaping \"aXa\" with a self-referencing contextual GSUB lookup spliced into Roboto: "+msg)
		}
		return
	}
	res := hb.VerifRecurse(in.Table, in.Start, in.MaxOps, 64)
	rows := make([]string, len(in.Table))
	for i, row := range in.Table {
		e := make([]string, len(row))
		for j, x := range row {
			e[j] = vh.Zi(int(x))
		}
		rows[i] = vh.List(e)
	}
	coq := vh.App("mkCase", vh.List(rows), vh.Zi(int(in.Start)), vh.Zi(in.MaxOps), vh.Zi(res.Entries), vh.Zi(res.MaxDepth),
		vh.Zi(res.OpsLeft), vh.Zi(res.Level), vh.Bool(res.Ret), vh.Bool(res.Cut), vh.List([]string{vh.Z(int64(hb.VerifMaxNestingLevel))}))
	key := ""
	if res.Entries > 0 {
		key = coq
	}
	o.Add(in, coq, key, "stub", fmt.Sprintf("depth=%d", res.MaxDepth))
}
