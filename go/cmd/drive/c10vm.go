package main

import (
	"bytes"
	"encoding/binary"
	"encoding/json"
	"fmt"
	"os"
	"path/filepath"
	"sort"
	"strings"

	"github.com/go-text/typesetting/font"
	ot "github.com/go-text/typesetting/font/opentype"

	"verifharness/internal/vh"
)

// C10, vertical metrics at default coordinates: Face.VerticalAdvance and Face.GlyphVOrigin against the model
// (Model/VMetrics.v) fed with the raw vhea / vmtx / VORG / OS/2 / hhea / hmtx bytes.

type c10vInput struct {
	Kind  string     `json:"kind"` // font | synth
	Font  string     `json:"font,omitempty"`
	Synth *c10cSynth `json:"synth,omitempty"`
	Gids  []int      `json:"gids"`
}

func init() {
	drivers["c10vm"] = &driver{
		header: "From TV Require Import Check.C10vm.",
		shard:  10,
		n: func(tier string) int {
			if tier == "quick" {
				return 60
			}
			return 2000
		},
		decode: func(raw json.RawMessage) (any, error) {
			var in c10vInput
			err := json.Unmarshal(raw, &in)
			return in, err
		},
		gen: c10vGen,
		run: c10vRun,
	}
}

type c10vFont struct {
	ft                                      *font.Font
	head, hhea, hmtx, vhea, vmtx, vorg, os2 []byte
	glyf, loca                              []byte
	long                                    bool
	nGlyphs                                 int
}

func c10vLoadFile(file []byte) (f *c10vFont, err error) {
	defer func() {
		if p := recover(); p != nil {
			f, err = nil, fmt.Errorf("panic while loading: %v", p)
		}
	}()
	ld, err := ot.NewLoader(bytes.NewReader(file))
	if err != nil {
		return nil, err
	}
	ft, err := font.NewFont(ld)
	if err != nil {
		return nil, err
	}
	raw := func(tag string) []byte { b, _ := ld.RawTable(ot.MustNewTag(tag)); return b }
	f = &c10vFont{ft: ft, head: raw("head"), hhea: raw("hhea"), hmtx: raw("hmtx"), vhea: raw("vhea"), vmtx: raw("vmtx"),
		vorg: raw("VORG"), os2: raw("OS/2"), glyf: raw("glyf"), loca: raw("loca"), nGlyphs: ft.VerifNumGlyphs()}
	if len(f.head) < 54 {
		return nil, fmt.Errorf("short head")
	}
	f.long = binary.BigEndian.Uint16(f.head[50:]) == 1
	return f, nil
}

func (f *c10vFont) glyphHdr(g int) []byte {
	if f.ft.VerifGlyfLen() == 0 {
		return nil
	}
	var s, e int
	if f.long {
		if 4*g+8 > len(f.loca) {
			return nil
		}
		s, e = int(binary.BigEndian.Uint32(f.loca[4*g:])), int(binary.BigEndian.Uint32(f.loca[4*g+4:]))
	} else {
		if 2*g+4 > len(f.loca) {
			return nil
		}
		s, e = 2*int(binary.BigEndian.Uint16(f.loca[2*g:])), 2*int(binary.BigEndian.Uint16(f.loca[2*g+2:]))
	}
	if s >= e || e > len(f.glyf) || e-s < 10 {
		return nil
	}
	return f.glyf[s : s+10]
}

type c10vInfo struct {
	rel            string
	size, nGlyphs  int
	vertical       bool
	nLongH, nLongV int
	vorgGids       []int
}

func c10vCorpus() []c10vInfo {
	root := c10Root()
	var out []c10vInfo
	filepath.Walk(root, func(p string, info os.FileInfo, err error) error {
		if err != nil || info.IsDir() || !(strings.HasSuffix(p, ".otf") || strings.HasSuffix(p, ".ttf")) {
			return nil
		}
		file, err := os.ReadFile(p)
		if err != nil {
			return nil
		}
		f, err := c10vLoadFile(file)
		if err != nil || f.nGlyphs == 0 {
			return nil
		}
		rel, _ := filepath.Rel(root, p)
		in := c10vInfo{rel: rel, size: len(f.hhea) + len(f.hmtx) + len(f.vhea) + len(f.vmtx) + len(f.vorg) + len(f.os2),
			nGlyphs: f.nGlyphs, vertical: len(f.vmtx) > 0 || len(f.vorg) > 0}
		if len(f.hhea) >= 36 {
			in.nLongH = int(binary.BigEndian.Uint16(f.hhea[34:]))
		}
		if len(f.vhea) >= 36 {
			in.nLongV = int(binary.BigEndian.Uint16(f.vhea[34:]))
		}
		if len(f.vorg) >= 8 {
			n := int(binary.BigEndian.Uint16(f.vorg[6:]))
			for i := 0; i < n && 12+4*i <= len(f.vorg) && i < 4000; i++ {
				in.vorgGids = append(in.vorgGids, int(binary.BigEndian.Uint16(f.vorg[8+4*i:])))
			}
		}
		out = append(out, in)
		return nil
	})
	sort.Slice(out, func(i, j int) bool { return out[i].rel < out[j].rel })
	return out
}

func c10vGids(r *vh.Rand, in c10vInfo, k int) []int {
	set := map[int]bool{}
	for _, g := range []int{0, 1, in.nLongH - 1, in.nLongH, in.nLongH + 1, in.nLongV - 2, in.nLongV - 1, in.nLongV, in.nLongV + 1,
		in.nGlyphs - 2, in.nGlyphs - 1, in.nGlyphs, in.nGlyphs + 5, 65535} {
		if g >= 0 && g <= 65535 {
			set[g] = true
		}
	}
	for i := 0; i < k; i++ {
		set[r.Intn(in.nGlyphs)] = true
	}
	for i := 0; i < 8 && len(in.vorgGids) > 0; i++ {
		g := in.vorgGids[r.Intn(len(in.vorgGids))]
		for _, d := range []int{-1, 0, 1} {
			if g+d >= 0 && g+d <= 65535 {
				set[g+d] = true
			}
		}
	}
	if len(in.vorgGids) > 0 {
		set[in.vorgGids[0]] = true
		set[in.vorgGids[len(in.vorgGids)-1]] = true
	}
	var out []int
	for g := range set {
		out = append(out, g)
	}
	sort.Ints(out)
	return out
}

func c10vGen(r *vh.Rand, tier string, n int, emit func(any)) {
	nSynth := 60
	if tier == "search" {
		nSynth = 300
	} else if tier != "quick" {
		nSynth = 1500
	}
	for i := 0; i < nSynth; i++ {
		s := c10vGenSynth(r)
		in := c10vInfo{nGlyphs: len(s.Recs), nLongH: s.NLongH, nLongV: s.NLongV}
		if len(s.Vorg) >= 8 {
			cnt := int(binary.BigEndian.Uint16(s.Vorg[6:]))
			for k := 0; k < cnt && 12+4*k <= len(s.Vorg); k++ {
				in.vorgGids = append(in.vorgGids, int(binary.BigEndian.Uint16(s.Vorg[8+4*k:])))
			}
		}
		emit(c10vInput{Kind: "synth", Synth: s, Gids: c10vGids(r, in, 8)})
	}
	corpus := c10vCorpus()
	order := r.Perm(len(corpus))
	// fonts with vertical tables first
	sort.SliceStable(order, func(a, b int) bool { return corpus[order[a]].vertical && !corpus[order[b]].vertical })
	maxSize := 14000
	if tier == "thorough" {
		maxSize = 1 << 30
	}
	budget := n
	for _, ci := range order {
		if budget <= 0 {
			break
		}
		in := corpus[ci]
		if in.size > maxSize {
			continue
		}
		k := 25
		if tier == "thorough" {
			k = 400
		}
		emit(c10vInput{Kind: "font", Font: in.rel, Gids: c10vGids(r, in, k)})
		budget--
	}
}

// a small random font with random vertical tables
func c10vGenSynth(r *vh.Rand) *c10cSynth {
	be16 := func(v int) []byte { return []byte{byte(v >> 8), byte(v)} }
	s := c10cGenSynth(r)
	n := len(s.Recs)
	s.Asc, s.Desc = r.Range(-1200, 1200), r.Range(-600, 600)
	if r.Chance(45) {
		// VORG: sorted entries (90%), default origin
		cnt := r.Intn(n + 2)
		gids := r.Perm(n + 3)[:cnt]
		if r.Chance(90) {
			sort.Ints(gids)
		}
		v := append([]byte{0, 1, 0, 0}, be16(r.Range(-500, 1200)&0xFFFF)...)
		v = append(v, be16(cnt)...)
		for _, g := range gids {
			v = append(v, be16(g)...)
			v = append(v, be16(r.Range(-500, 1500)&0xFFFF)...)
		}
		if r.Chance(8) && len(v) > 9 {
			v = v[:len(v)-r.Range(1, 3)] // truncated: rejected by the parser
		}
		s.Vorg = v
	}
	if r.Chance(70) {
		o := make([]byte, 78)
		ver := r.Intn(5)
		copy(o[0:], be16(ver))
		if r.Chance(80) {
			copy(o[4:], be16(400))
		}
		fs := r.Intn(65536)
		if r.Chance(50) {
			fs |= 0x80
		}
		copy(o[62:], be16(fs))
		if r.Chance(30) {
			copy(o[64:], be16(32))
		}
		copy(o[68:], be16(r.Range(-1500, 1500)&0xFFFF))
		copy(o[70:], be16(r.Range(-800, 800)&0xFFFF))
		if ver >= 2 || r.Chance(20) {
			o = append(o, make([]byte, []int{0, 4, 11, 12, 18}[r.Intn(5)])...)
		}
		if r.Chance(5) {
			o = o[:r.Intn(78)]
		}
		s.Os2 = o
	}
	if r.Chance(20) {
		s.NoGlyf = true
	}
	if s.Vmtx != nil && r.Chance(10) && len(s.Vmtx) > 2 {
		s.Vmtx = s.Vmtx[:len(s.Vmtx)-2] // one side bearing short: vmtx rejected
	}
	return s
}

func c10vRun(o *vh.Out, inAny any) {
	in := inAny.(c10vInput)
	var fails []string
	coq, key := "(CVM [] [] [] [] [] [] [] 0 0 false [])", ""
	var classes []string
	func() {
		defer func() {
			if p := recover(); p != nil {
				fails = append(fails, fmt.Sprintf("panic: %v", p))
			}
		}()
		var file []byte
		if in.Kind == "synth" {
			if in.Synth == nil {
				fails = append(fails, "driver: no synth data")
				return
			}
			file = c10cSynthFile(in.Synth)
			classes = append(classes, "synthetic_font")
		} else {
			var err error
			file, err = os.ReadFile(filepath.Join(c10Root(), in.Font))
			if err != nil {
				fails = append(fails, "driver: "+err.Error())
				return
			}
			classes = append(classes, "corpus_font")
		}
		f, err := c10vLoadFile(file)
		if err != nil {
			classes = append(classes, "font_rejected")
			return
		}
		face := font.NewFace(f.ft)
		nGlyf := f.ft.VerifGlyfLen()
		var glyphs []string
		for _, g := range in.Gids {
			adv, ok := c10Int(face.VerticalAdvance(font.GID(g)))
			if !ok {
				fails = append(fails, fmt.Sprintf("vertical advance of %d not integral", g))
			}
			x, y, found := face.GlyphVOrigin(font.GID(g))
			var hdr []byte
			if g < nGlyf {
				hdr = f.glyphHdr(g)
			}
			glyphs = append(glyphs, vh.App("G", vh.Zi(g), vh.BytesLit(hdr), vh.Z(adv), vh.Z(int64(x)), vh.Z(int64(y)), vh.Bool(found)))
		}
		switch {
		case len(f.vorg) > 0:
			classes = append(classes, "has_VORG")
		case len(f.vmtx) > 0:
			classes = append(classes, "has_vmtx_no_VORG")
		case nGlyf > 0:
			classes = append(classes, "glyf_fallback")
		default:
			classes = append(classes, "ascender_fallback")
		}
		coq = vh.App("CVM", vh.BytesLit(f.head[:54]), vh.BytesLit(f.hhea), vh.BytesLit(f.hmtx), vh.BytesLit(f.vhea), vh.BytesLit(f.vmtx),
			vh.BytesLit(f.vorg), vh.BytesLit(f.os2), vh.Zi(f.nGlyphs), vh.Zi(nGlyf), vh.Bool(f.ft.HasVerticalMetrics()), vh.List(glyphs))
		if len(glyphs) > 0 {
			key = coq
		}
	}()
	idx := o.Add(in, coq, key, classes...)
	for _, f := range fails {
		kind := "impl"
		if strings.HasPrefix(f, "panic") {
			kind = "panic"
		}
		o.Fail(idx, kind, f)
	}
}
