// Command c10sfnt is an exploration sweep for property C10: a second opinion from the independent decoder
// golang.org/x/image/font/sfnt on character mapping, horizontal advances and TrueType outlines (composite glyphs
// included), for every glyph of a sample of corpus fonts.  Prints JSON lines: {"fail":...} and one {"stats":...}.
package main

import (
	"bytes"
	"encoding/json"
	"flag"
	"fmt"
	"math"
	"os"
	"os/exec"
	"path/filepath"
	"sort"
	"strings"

	"github.com/go-text/typesetting/font"
	ot "github.com/go-text/typesetting/font/opentype"
	xfont "golang.org/x/image/font"
	"golang.org/x/image/font/sfnt"
	"golang.org/x/image/math/fixed"
)

func root() string {
	if d := os.Getenv("VERIF_FONTS"); d != "" {
		return d
	}
	repo := os.Getenv("VERIF_REPO")
	if repo == "" {
		repo = "/repo"
	}
	cmd := exec.Command("go", "list", "-m", "-f", "{{.Dir}}", "github.com/go-text/typesetting-utils")
	cmd.Dir = repo
	if out, err := cmd.Output(); err == nil && strings.TrimSpace(string(out)) != "" {
		return strings.TrimSpace(string(out))
	}
	home, _ := os.UserHomeDir()
	m, _ := filepath.Glob(filepath.Join(home, "go/pkg/mod/github.com/go-text/typesetting-utils@*"))
	if len(m) > 0 {
		sort.Strings(m)
		return m[len(m)-1]
	}
	return ""
}

type seg struct {
	op   int
	args [4]float64
}

func main() {
	tier := flag.String("tier", "quick", "")
	flag.Parse()
	rt := root()
	if rt == "" {
		fmt.Println(`{"stats":{"evaluations":0,"note":"typesetting-utils not found"}}`)
		return
	}
	var files []string
	filepath.Walk(rt, func(p string, info os.FileInfo, err error) error {
		if err == nil && !info.IsDir() && strings.HasSuffix(p, ".ttf") {
			files = append(files, p)
		}
		return nil
	})
	sort.Strings(files)
	hist := map[string]int{}
	evals, distinct := 0, 0
	maxGlyphs := 400
	if *tier != "quick" {
		maxGlyphs = 1 << 20
	}
	fail := func(kind, file string, gid int, what string) {
		rel, _ := filepath.Rel(rt, file)
		b, _ := json.Marshal(map[string]any{"fail": what, "kind": kind, "input": map[string]any{"font": rel, "gid": gid}})
		fmt.Println(string(b))
	}
	for fi, p := range files {
		if *tier == "quick" && fi%6 != 0 {
			continue
		}
		data, err := os.ReadFile(p)
		if err != nil {
			continue
		}
		func() {
			defer func() {
				if r := recover(); r != nil {
					hist["panic_in_sweep"]++
				}
			}()
			ld, err := ot.NewLoader(bytes.NewReader(data))
			if err != nil {
				return
			}
			ft, err := font.NewFont(ld)
			if err != nil || ft.VerifHasOtherGlyphSources() || ft.VerifGlyfLen() == 0 {
				return
			}
			sf, err := sfnt.Parse(data)
			if err != nil {
				hist["sfnt_rejects_font"]++
				return
			}
			face := font.NewFace(ft)
			var buf sfnt.Buffer
			upem := fixed.Int26_6(sf.UnitsPerEm())
			if int(sf.UnitsPerEm()) != int(ft.Upem()) {
				fail("upem", p, 0, fmt.Sprintf("upem %d vs sfnt %d", ft.Upem(), sf.UnitsPerEm()))
			}
			hist["fonts"]++
			n := ft.VerifNumGlyphs()
			if n != sf.NumGlyphs() {
				fail("numglyphs", p, 0, fmt.Sprintf("numGlyphs %d vs sfnt %d", n, sf.NumGlyphs()))
			}
			for g := 0; g < n && g < maxGlyphs; g++ {
				evals++
				// advance
				adv, err := sf.GlyphAdvance(&buf, sfnt.GlyphIndex(g), upem, xfont.HintingNone)
				if err == nil {
					if float32(adv) != face.HorizontalAdvance(font.GID(g)) {
						fail("advance", p, g, fmt.Sprintf("advance %v vs sfnt %v", face.HorizontalAdvance(font.GID(g)), adv))
					} else {
						hist["advance_equal"]++
					}
				} else {
					hist["sfnt_advance_error"]++
				}
				// outline
				ss, err := sf.LoadGlyph(&buf, sfnt.GlyphIndex(g), upem, nil)
				if err != nil {
					hist["sfnt_outline_error"]++
					continue
				}
				ol, ok := face.GlyphData(font.GID(g)).(font.GlyphOutline)
				if !ok {
					hist["no_outline"]++
					continue
				}
				if len(ss) != len(ol.Segments) {
					hist["outline_segment_count_differs"]++
					fail("outline", p, g, fmt.Sprintf("%d segments vs sfnt %d", len(ol.Segments), len(ss)))
					continue
				}
				if len(ss) == 0 {
					hist["outline_empty"]++
					continue
				}
				// equal up to one horizontal translation (the library shifts the outline so that xMin = lsb); sfnt has y down
				dx := float64(ol.Segments[0].Args[0].X) - float64(ss[0].Args[0].X)
				same, worst := true, 0.0
				for i := range ss {
					if int(ss[i].Op) != int(ol.Segments[i].Op) {
						same = false
						break
					}
					k := 1
					if ss[i].Op == sfnt.SegmentOpQuadTo {
						k = 2
					}
					for a := 0; a < k; a++ {
						ex := math.Abs(float64(ol.Segments[i].Args[a].X) - float64(ss[i].Args[a].X) - dx)
						ey := math.Abs(float64(ol.Segments[i].Args[a].Y) + float64(ss[i].Args[a].Y))
						worst = math.Max(worst, math.Max(ex, ey))
					}
				}
				switch {
				case !same:
					hist["outline_ops_differ"]++
					fail("outline", p, g, "segment operators differ from sfnt")
				case worst == 0:
					hist["outline_equal"]++
					distinct++
				case worst <= 1: // sfnt works in 26.6 fixed point of integer units: implied midpoints are truncated
					hist["outline_within_rounding"]++
					distinct++
				case worst <= 2: // scaled composite components: sfnt rounds the transformed coordinates, the library keeps fractions
					hist["outline_within_component_transform_rounding"]++
					distinct++
				default:
					hist["outline_coordinates_differ"]++
					fail("outline", p, g, fmt.Sprintf("coordinates differ from sfnt by %.2f units", worst))
				}
			}
			// character mapping
			it := ft.Cmap.Iter()
			cnt := 0
			for it.Next() && cnt < 3000 {
				r, gid := it.Char()
				cnt++
				sg, err := sf.GlyphIndex(&buf, r)
				if err != nil {
					hist["sfnt_cmap_error"]++
					break
				}
				if int(sg) == int(gid) {
					hist["cmap_equal"]++
				} else {
					hist["cmap_differs"]++ // sfnt selects one subtable by its own preference order: reported, not failed
				}
			}
		}()
	}
	b, _ := json.Marshal(map[string]any{"stats": map[string]any{"evaluations": evals, "distinct_nontrivial": distinct, "histogram": hist}})
	fmt.Println(string(b))
}
