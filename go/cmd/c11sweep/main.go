// Command c11sweep is the corpus-font oracle of property C11 (Go only): for each font of the
// typesetting-utils corpus it compares, over all 0x110000 code points, the character map's Lookup, its Iter
// enumeration, the coverage recorded for font matching (footprint from the parsed font and from the loader)
// and the script set.  It prints JSON lines {"fail":..., "kind":...} and one {"stats":{...}} line.
package main

import (
	"bytes"
	"encoding/json"
	"flag"
	"fmt"
	"os"
	"path"
	"sort"

	td "github.com/go-text/typesetting-utils/opentype"
	"github.com/go-text/typesetting/font"
	ot "github.com/go-text/typesetting/font/opentype"
	"github.com/go-text/typesetting/fontscan"
	"github.com/go-text/typesetting/language"
)

func emit(v any) {
	b, _ := json.Marshal(v)
	fmt.Println(string(b))
}

const maxRune = 0x110000

func main() {
	tier := flag.String("tier", "quick", "quick|thorough")
	flag.Parse()
	dirs := []string{"common", "cmap"}
	limit := 14
	if *tier == "thorough" {
		dirs = []string{"common", "cmap", "toys", "collections", "cff", "bitmap", "morx"}
		limit = 1 << 30
	}
	var files []string
	for _, d := range dirs {
		ents, err := td.Files.ReadDir(d)
		if err != nil {
			continue
		}
		for _, e := range ents {
			if !e.IsDir() {
				files = append(files, path.Join(d, e.Name()))
			}
		}
	}
	sort.Strings(files)
	hist := map[string]int{}
	evaluations, fonts := 0, 0
	var samples []string
	for _, name := range files {
		if fonts >= limit {
			break
		}
		data, err := td.Files.ReadFile(name)
		if err != nil {
			continue
		}
		lds, err := ot.NewLoaders(bytes.NewReader(data))
		if err != nil {
			hist["unreadable"]++
			continue
		}
		for idx, ld := range lds {
			ft, err := font.NewFont(ld)
			if err != nil {
				hist["not-a-font"]++
				continue
			}
			fonts++
			if len(samples) < 3 {
				samples = append(samples, fmt.Sprintf("%s#%d", name, idx))
			}
			kind := font.VerifCmapKind(ft.Cmap)
			hist["cmap="+kind]++
			sweepFont(fmt.Sprintf("%s#%d", name, idx), kind, ft, ld)
			evaluations += maxRune
		}
	}
	// synthetic range lists against the script table: the script set of scriptsFromRanges must be exactly the
	// set of scripts of the runes in the ranges; range ends are placed around every boundary of
	// language.ScriptRanges (inside a script range, in the unassigned gap behind it, at its first/last rune)
	nsyn := syntheticScripts(hist)
	evaluations += nsyn
	if fonts == 0 {
		emit(map[string]any{"fail": "no corpus font could be loaded", "kind": "harness"})
		os.Exit(1)
	}
	emit(map[string]any{"stats": map[string]any{"evaluations": evaluations, "distinct_nontrivial": fonts, "histogram": hist, "samples": samples}})
}

func sweepFont(name, kind string, ft *font.Font, ld *ot.Loader) {
	defer func() {
		if p := recover(); p != nil {
			emit(map[string]any{"fail": fmt.Sprintf("%s: panic: %v", name, p), "kind": "panic", "font": name})
		}
	}()
	cm := ft.Cmap
	// enumeration
	iter := map[rune]font.GID{}
	dups := 0
	it := cm.Iter()
	for it.Next() {
		r, g := it.Char()
		if _, ok := iter[r]; ok {
			dups++
		}
		iter[r] = g
	}
	fp := fontscan.VerifFootprintFromFont(ft)
	fpl, errl := fontscan.VerifFootprintFromLoader(ld)
	scripts := map[language.Script]bool{}
	var (
		iterNotLookup, lookupNotIter, glyphDiffer, covNotLookup, lookupNotCov, loaderDiffer int
		zeroGlyphIter                                                                       int
		first                                                                               = map[string]rune{}
	)
	note := func(what string, r rune) {
		if _, ok := first[what]; !ok {
			first[what] = r
		}
	}
	for r := rune(0); r < maxRune; r++ {
		g, ok := cm.Lookup(r)
		gi, inIter := iter[r]
		switch {
		case inIter && !ok:
			iterNotLookup++
			if gi == 0 {
				zeroGlyphIter++
			}
			note("iter-not-lookup", r)
		case !inIter && ok:
			lookupNotIter++
			note("lookup-not-iter", r)
		case inIter && ok && g != gi:
			glyphDiffer++
			note("glyph-differs", r)
		}
		cov := fp.Runes.Contains(r)
		if cov && !ok {
			covNotLookup++
			note("coverage-not-lookup", r)
		}
		if ok && !cov {
			lookupNotCov++
			note("lookup-not-coverage", r)
		}
		if errl == nil && fpl.Runes.Contains(r) != cov {
			loaderDiffer++
			note("loader-coverage-differs", r)
		}
		if cov {
			scripts[language.LookupScript(r)] = true
		}
	}
	report := func(kind string, n int, extra string) {
		if n != 0 {
			emit(map[string]any{"fail": fmt.Sprintf("%s (%s): %d runes %s, first U+%04X%s", name, kindOf(ft), n, kind, first[kind], extra), "kind": kind, "font": name})
		}
	}
	if dups != 0 {
		emit(map[string]any{"fail": fmt.Sprintf("%s: Iter yields %d runes twice", name, dups), "kind": "iter-duplicates", "font": name})
	}
	extra := ""
	if iterNotLookup != 0 && zeroGlyphIter == iterNotLookup {
		extra = " (all enumerated with glyph 0)"
		report("iter-not-lookup", 0, "")
		emit(map[string]any{"fail": fmt.Sprintf("%s (%s): %d runes enumerated with glyph 0 that Lookup reports missing, first U+%04X", name, kind, iterNotLookup, first["iter-not-lookup"]), "kind": "iter-zero-glyph", "font": name})
	} else {
		report("iter-not-lookup", iterNotLookup, extra)
	}
	report("lookup-not-iter", lookupNotIter, "")
	report("glyph-differs", glyphDiffer, "")
	if covNotLookup != 0 && covNotLookup == zeroGlyphIter {
		emit(map[string]any{"fail": fmt.Sprintf("%s (%s): coverage contains %d runes (glyph-array entry 0) that Lookup reports missing, first U+%04X", name, kind, covNotLookup, first["coverage-not-lookup"]), "kind": "coverage-zero-glyph", "font": name})
	} else {
		report("coverage-not-lookup", covNotLookup, "")
	}
	report("lookup-not-coverage", lookupNotCov, "")
	report("loader-coverage-differs", loaderDiffer, "")
	// script set = scripts of the covered runes
	got := map[language.Script]bool{}
	for _, s := range fp.Scripts {
		got[s] = true
	}
	for s := range scripts {
		if !got[s] {
			emit(map[string]any{"fail": fmt.Sprintf("%s: script %s of a covered rune is missing from the script set", name, s), "kind": "script-missing", "font": name})
		}
	}
	for s := range got {
		if !scripts[s] {
			emit(map[string]any{"fail": fmt.Sprintf("%s: script set holds %s but no covered rune has that script", name, s), "kind": "script-spurious", "font": name})
		}
	}
	for i := 1; i < len(fp.Scripts); i++ {
		if fp.Scripts[i-1] >= fp.Scripts[i] {
			emit(map[string]any{"fail": name + ": script set not strictly sorted", "kind": "script-order", "font": name})
		}
	}
	if fp.Runes.Len() != func() int {
		n := 0
		for r := rune(0); r < maxRune; r++ {
			if fp.Runes.Contains(r) {
				n++
			}
		}
		return n
	}() {
		emit(map[string]any{"fail": name + ": RuneSet.Len differs from the number of contained runes", "kind": "len", "font": name})
	}
}

func kindOf(ft *font.Font) string { return font.VerifCmapKind(ft.Cmap) }

func checkScripts(ranges [][2]rune, hist map[string]int) {
	want := map[language.Script]bool{}
	for _, rg := range ranges {
		for r := rg[0]; r <= rg[1]; r++ {
			want[language.LookupScript(r)] = true
		}
	}
	got := fontscan.VerifScriptsFromRanges(ranges)
	gotSet := map[language.Script]bool{}
	for _, s := range got {
		gotSet[s] = true
	}
	for s := range want {
		if !gotSet[s] {
			hist["synthetic-script-fail"]++
			emit(map[string]any{"fail": fmt.Sprintf("ranges %v: script %s of a covered rune is missing from scriptsFromRanges", ranges, s), "kind": "script-missing", "input": ranges})
			return
		}
	}
	for s := range gotSet {
		if !want[s] {
			hist["synthetic-script-fail"]++
			emit(map[string]any{"fail": fmt.Sprintf("ranges %v: scriptsFromRanges holds %s but no covered rune has that script", ranges, s), "kind": "script-spurious", "input": ranges})
			return
		}
	}
}

func syntheticScripts(hist map[string]int) int {
	defer func() {
		if p := recover(); p != nil {
			emit(map[string]any{"fail": fmt.Sprintf("scriptsFromRanges panic: %v", p), "kind": "panic"})
		}
	}()
	n := 0
	tab := language.ScriptRanges
	clampR := func(r rune) rune {
		if r < 0 {
			return 0
		}
		if r > 0x10FFFF {
			return 0x10FFFF
		}
		return r
	}
	for i, sr := range tab {
		next := rune(0x110000)
		if i+1 < len(tab) {
			next = tab[i+1].Start
		}
		// single ranges around the end of script range i and the gap [End+1, next-1] behind it
		starts := []rune{sr.Start, sr.End, sr.End - 1}
		ends := []rune{sr.End, sr.End + 1, sr.End + 2, next - 1, next, next + 1}
		for _, a := range starts {
			for _, b := range ends {
				a, b := clampR(a), clampR(b)
				if a <= b && b-a < 5000 {
					checkScripts([][2]rune{{a, b}}, hist)
					n++
				}
			}
		}
		// two ranges: one inside the script range, one in the gap
		if sr.End+1 <= next-1 {
			checkScripts([][2]rune{{sr.Start, sr.Start}, {sr.End + 1, sr.End + 1}}, hist)
			checkScripts([][2]rune{{sr.End, sr.End}, {next - 1, next - 1}}, hist)
			n += 2
		}
	}
	hist["synthetic-script-ranges"] = n
	return n
}
