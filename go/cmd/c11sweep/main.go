// Command c11sweep is the corpus-font oracle of property C11 (Go only): for each font of the
// typesetting-utils corpus it compares, over all 0x110000 code points, the character map's Lookup, its Iter
// enumeration, the coverage recorded for font matching (footprint from the parsed font and from the loader)
// and the script set.  It prints JSON lines {"fail":..., "kind":...} and one {"stats":{...}} line.
package main

import (
	"bytes"
	"encoding/json"
	"flag"
	"fmt"
	"os"
	"path"
	"sort"

	td "github.com/go-text/typesetting-utils/opentype"
	"github.com/go-text/typesetting/font"
	ot "github.com/go-text/typesetting/font/opentype"
	"github.com/go-text/typesetting/fontscan"
	"github.com/go-text/typesetting/language"
)

func emit(v any) {
	b, _ := json.Marshal(v)
	fmt.Println(string(b))
}

const maxRune = 0x110000

func main() {
	tier := flag.String("tier", "quick", "quick|thorough")
	flag.Parse()
	dirs := []string{"common", "cmap"}
	limit := 14
	if *tier == "thorough" {
		dirs = []string{"common", "cmap", "toys", "collections", "cff", "bitmap", "morx"}
		limit = 1 << 30
	}
	var files []string
	for _, d := range dirs {
		ents, err := td.Files.ReadDir(d)
		if err != nil {
			continue
		}
		for _, e := range ents {
			if !e.IsDir() {
				files = append(files, path.Join(d, e.Name()))
			}
		}
	}
	sort.Strings(files)
	hist := map[string]int{}
	evaluations, fonts := 0, 0
	var samples []string
	for _, name := range files {
		if fonts >= limit {
			break
		}
		data, err := td.Files.ReadFile(name)
		if err != nil {
			continue
		}
		lds, err := ot.NewLoaders(bytes.NewReader(data))
		if err != nil {
			hist["unreadable"]++
			continue
		}
		for idx, ld := range lds {
			ft, err := font.NewFont(ld)
			if err != nil {
				hist["not-a-font"]++
				continue
			}
			fonts++
			if len(samples) < 3 {
				samples = append(samples, fmt.Sprintf("%s#%d", name, idx))
			}
			kind := font.VerifCmapKind(ft.Cmap)
			hist["cmap="+kind]++
			sweepFont(fmt.Sprintf("%s#%d", name, idx), kind, ft, ld)
			evaluations += maxRune
		}
	}
	// synthetic range lists against the script table: the script set of scriptsFromRanges must be exactly the
	// set of scripts of the runes in the ranges; range ends are placed around every boundary of
	// language.ScriptRanges (inside a script range, in the unassigned gap behind it, at its first/last rune)
	nsyn := syntheticScripts(hist)
	evaluations += nsyn
	// legacy fonts: a corpus font whose 'cmap' is replaced by a symbol-encoded (3,0) format 4 subtable reaching into the
	// private use blocks the remapers use, with an OS/2 version 0 table selecting no / the simplified / the traditional
	// arabic font page: Lookup of the loaded face vs the coverage recorded by the scanner
	evaluations += syntheticLegacy(files, hist)
	if fonts == 0 {
		emit(map[string]any{"fail": "no corpus font could be loaded", "kind": "harness"})
		os.Exit(1)
	}
	emit(map[string]any{"stats": map[string]any{"evaluations": evaluations, "distinct_nontrivial": fonts, "histogram": hist, "samples": samples}})
}

func sweepFont(name, kind string, ft *font.Font, ld *ot.Loader) {
	defer func() {
		if p := recover(); p != nil {
			emit(map[string]any{"fail": fmt.Sprintf("%s: panic: %v", name, p), "kind": "panic", "font": name})
		}
	}()
	cm := ft.Cmap
	// enumeration
	iter := map[rune]font.GID{}
	dups := 0
	it := cm.Iter()
	for it.Next() {
		r, g := it.Char()
		if _, ok := iter[r]; ok {
			dups++
		}
		iter[r] = g
	}
	fp := fontscan.VerifFootprintFromFont(ft)
	fpl, errl := fontscan.VerifFootprintFromLoader(ld)
	scripts := map[language.Script]bool{}
	var (
		iterNotLookup, lookupNotIter, glyphDiffer, covNotLookup, lookupNotCov, loaderDiffer int
		zeroGlyphIter                                                                       int
		first                                                                               = map[string]rune{}
	)
	note := func(what string, r rune) {
		if _, ok := first[what]; !ok {
			first[what] = r
		}
	}
	for r := rune(0); r < maxRune; r++ {
		g, ok := cm.Lookup(r)
		gi, inIter := iter[r]
		switch {
		case inIter && !ok:
			iterNotLookup++
			if gi == 0 {
				zeroGlyphIter++
			}
			note("iter-not-lookup", r)
		case !inIter && ok:
			lookupNotIter++
			note("lookup-not-iter", r)
		case inIter && ok && g != gi:
			glyphDiffer++
			note("glyph-differs", r)
		}
		cov := fp.Runes.Contains(r)
		if cov && !ok {
			covNotLookup++
			note("coverage-not-lookup", r)
		}
		if ok && !cov {
			lookupNotCov++
			note("lookup-not-coverage", r)
		}
		if errl == nil && fpl.Runes.Contains(r) != cov {
			loaderDiffer++
			note("loader-coverage-differs", r)
		}
		if cov {
			scripts[language.LookupScript(r)] = true
		}
	}
	report := func(kind string, n int, extra string) {
		if n != 0 {
			emit(map[string]any{"fail": fmt.Sprintf("%s (%s): %d runes %s, first U+%04X%s", name, kindOf(ft), n, kind, first[kind], extra), "kind": kind, "font": name})
		}
	}
	if dups != 0 {
		emit(map[string]any{"fail": fmt.Sprintf("%s: Iter yields %d runes twice", name, dups), "kind": "iter-duplicates", "font": name})
	}
	extra := ""
	if iterNotLookup != 0 && zeroGlyphIter == iterNotLookup {
		extra = " (all enumerated with glyph 0)"
		report("iter-not-lookup", 0, "")
		emit(map[string]any{"fail": fmt.Sprintf("%s (%s): %d runes enumerated with glyph 0 that Lookup reports missing, first U+%04X", name, kind, iterNotLookup, first["iter-not-lookup"]), "kind": "iter-zero-glyph", "font": name})
	} else {
		report("iter-not-lookup", iterNotLookup, extra)
	}
	report("lookup-not-iter", lookupNotIter, "")
	report("glyph-differs", glyphDiffer, "")
	if covNotLookup != 0 && covNotLookup == zeroGlyphIter {
		emit(map[string]any{"fail": fmt.Sprintf("%s (%s): coverage contains %d runes (glyph-array entry 0) that Lookup reports missing, first U+%04X", name, kind, covNotLookup, first["coverage-not-lookup"]), "kind": "coverage-zero-glyph", "font": name})
	} else {
		report("coverage-not-lookup", covNotLookup, "")
	}
	report("lookup-not-coverage", lookupNotCov, "")
	report("loader-coverage-differs", loaderDiffer, "")
	// script set = scripts of the covered runes
	got := map[language.Script]bool{}
	for _, s := range fp.Scripts {
		got[s] = true
	}
	for s := range scripts {
		if !got[s] {
			emit(map[string]any{"fail": fmt.Sprintf("%s: script %s of a covered rune is missing from the script set", name, s), "kind": "script-missing", "font": name})
		}
	}
	for s := range got {
		if !scripts[s] {
			emit(map[string]any{"fail": fmt.Sprintf("%s: script set holds %s but no covered rune has that script", name, s), "kind": "script-spurious", "font": name})
		}
	}
	for i := 1; i < len(fp.Scripts); i++ {
		if fp.Scripts[i-1] >= fp.Scripts[i] {
			emit(map[string]any{"fail": name + ": script set not strictly sorted", "kind": "script-order", "font": name})
		}
	}
	// language set = the languages whose exemplar runes are all covered (table entry by table entry, rune by rune)
	for id, runes := range fontscan.VerifLanguagesRunes() {
		want := true
		for _, p := range fontscan.VerifPages(runes) {
			for w, word := range p.Set {
				for b := 0; b < 32 && want; b++ {
					if word&(1<<uint(b)) != 0 && !fp.Runes.Contains(rune(p.Ref)<<8|rune(w)<<5|rune(b)) {
						want = false
					}
				}
			}
		}
		if got := fp.Langs.Contains(fontscan.LangID(id)); got != want {
			emit(map[string]any{"fail": fmt.Sprintf("%s: language id %d: LangSet.Contains = %v, all exemplar runes covered = %v", name, id, got, want), "kind": "langset", "font": name})
			break
		}
	}
	if errl == nil && fpl.Langs != fp.Langs {
		emit(map[string]any{"fail": name + ": language set of the scanner differs from the one of the loaded font", "kind": "langset-loader", "font": name})
	}
	if fp.Runes.Len() != func() int {
		n := 0
		for r := rune(0); r < maxRune; r++ {
			if fp.Runes.Contains(r) {
				n++
			}
		}
		return n
	}() {
		emit(map[string]any{"fail": name + ": RuneSet.Len differs from the number of contained runes", "kind": "len", "font": name})
	}
}

func kindOf(ft *font.Font) string { return font.VerifCmapKind(ft.Cmap) }

func checkScripts(ranges [][2]rune, hist map[string]int) {
	want := map[language.Script]bool{}
	for _, rg := range ranges {
		for r := rg[0]; r <= rg[1]; r++ {
			want[language.LookupScript(r)] = true
		}
	}
	got := fontscan.VerifScriptsFromRanges(ranges)
	gotSet := map[language.Script]bool{}
	for _, s := range got {
		gotSet[s] = true
	}
	for s := range want {
		if !gotSet[s] {
			hist["synthetic-script-fail"]++
			emit(map[string]any{"fail": fmt.Sprintf("ranges %v: script %s of a covered rune is missing from scriptsFromRanges", ranges, s), "kind": "script-missing", "input": ranges})
			return
		}
	}
	for s := range gotSet {
		if !want[s] {
			hist["synthetic-script-fail"]++
			emit(map[string]any{"fail": fmt.Sprintf("ranges %v: scriptsFromRanges holds %s but no covered rune has that script", ranges, s), "kind": "script-spurious", "input": ranges})
			return
		}
	}
}

func syntheticScripts(hist map[string]int) int {
	defer func() {
		if p := recover(); p != nil {
			emit(map[string]any{"fail": fmt.Sprintf("scriptsFromRanges panic: %v", p), "kind": "panic"})
		}
	}()
	n := 0
	tab := language.ScriptRanges
	clampR := func(r rune) rune {
		if r < 0 {
			return 0
		}
		if r > 0x10FFFF {
			return 0x10FFFF
		}
		return r
	}
	for i, sr := range tab {
		next := rune(0x110000)
		if i+1 < len(tab) {
			next = tab[i+1].Start
		}
		// single ranges around the end of script range i and the gap [End+1, next-1] behind it
		starts := []rune{sr.Start, sr.End, sr.End - 1}
		ends := []rune{sr.End, sr.End + 1, sr.End + 2, next - 1, next, next + 1}
		for _, a := range starts {
			for _, b := range ends {
				a, b := clampR(a), clampR(b)
				if a <= b && b-a < 5000 {
					checkScripts([][2]rune{{a, b}}, hist)
					n++
				}
			}
		}
		// two ranges: one inside the script range, one in the gap
		if sr.End+1 <= next-1 {
			checkScripts([][2]rune{{sr.Start, sr.Start}, {sr.End + 1, sr.End + 1}}, hist)
			checkScripts([][2]rune{{sr.End, sr.End}, {next - 1, next - 1}}, hist)
			n += 2
		}
	}
	hist["synthetic-script-ranges"] = n
	return n
}

// ---- synthetic legacy fonts ----

func be16(b []byte, o int) int { return int(b[o])<<8 | int(b[o+1]) }
func be32(b []byte, o int) int { return int(b[o])<<24 | int(b[o+1])<<16 | int(b[o+2])<<8 | int(b[o+3]) }
func put16(b []byte, v int) []byte { return append(b, byte(v>>8), byte(v)) }
func put32(b []byte, v int) []byte { return append(b, byte(v>>24), byte(v>>16), byte(v>>8), byte(v)) }

// rebuildSfnt returns a copy of a single-font sfnt file where the tables named in [replace] have new contents.
func rebuildSfnt(data []byte, replace map[string][]byte) []byte {
	if len(data) < 12 || (be32(data, 0) != 0x00010000 && string(data[:4]) != "OTTO" && string(data[:4]) != "true") {
		return nil
	}
	n := be16(data, 4)
	if len(data) < 12+16*n {
		return nil
	}
	type tab struct {
		tag  string
		body []byte
	}
	var tabs []tab
	seen := map[string]bool{}
	for i := 0; i < n; i++ {
		o := 12 + 16*i
		tag := string(data[o : o+4])
		off, l := be32(data, o+8), be32(data, o+12)
		if off < 0 || l < 0 || off+l > len(data) {
			return nil
		}
		body := data[off : off+l]
		if nb, ok := replace[tag]; ok {
			body = nb
			seen[tag] = true
		}
		tabs = append(tabs, tab{tag, body})
	}
	for tag := range replace {
		if !seen[tag] {
			return nil // keep the table directory sorted: only replace existing tables
		}
	}
	out := append([]byte(nil), data[:12]...)
	offset := 12 + 16*len(tabs)
	var bodies []byte
	for _, t := range tabs {
		out = append(out, t.tag...)
		out = put32(out, 0)
		out = put32(out, offset+len(bodies))
		out = put32(out, len(t.body))
		bodies = append(bodies, t.body...)
		for len(bodies)%4 != 0 {
			bodies = append(bodies, 0)
		}
	}
	return append(out, bodies...)
}

// legacyCmap is a 'cmap' table with one (3,0) format 4 subtable: ASCII letters by delta, one private use segment
// [lo, hi] through a glyph index array with missing-glyph entries, and the final 0xFFFF segment.
func legacyCmap(lo, hi, nGlyphs int) []byte {
	segs := [][4]int{{0x41, 0x5a, 0, 0}, {lo, hi, 0, 1}, {0xffff, 0xffff, 1, 0}}
	var ga []byte
	for c := lo; c <= hi; c++ {
		g := 1 + (c-lo)%(nGlyphs-1)
		if (c-lo)%7 == 3 {
			g = 0 // missing glyph
		}
		ga = put16(ga, g)
	}
	sub := put16(nil, 4)
	sub = put16(sub, 16+8*len(segs)+len(ga))
	sub = put16(sub, 0)
	sub = put16(sub, 2*len(segs))
	sub = put16(sub, 4)
	sub = put16(sub, 1)
	sub = put16(sub, 2*len(segs)-4)
	for _, s := range segs {
		sub = put16(sub, s[1])
	}
	sub = put16(sub, 0)
	for _, s := range segs {
		sub = put16(sub, s[0])
	}
	for _, s := range segs {
		d := 0
		if s[3] == 0 {
			d = (1 + 0x10000 - s[0]) & 0xffff // the first rune of the segment gets glyph 1
			if s[0] == 0xffff {
				d = 1
			}
		}
		sub = put16(sub, d)
	}
	for i, s := range segs {
		if s[3] == 1 {
			sub = put16(sub, 2*(len(segs)-i)) // the glyph array follows the idRangeOffset array
		} else {
			sub = put16(sub, 0)
		}
	}
	sub = append(sub, ga...)
	out := put16(nil, 0)
	out = put16(out, 1)
	out = put16(out, 3)
	out = put16(out, 0)
	out = put32(out, 12)
	return append(out, sub...)
}

func syntheticLegacy(files []string, hist map[string]int) int {
	n := 0
	for _, name := range files {
		data, err := td.Files.ReadFile(name)
		if err != nil {
			continue
		}
		lds, err := ot.NewLoaders(bytes.NewReader(data))
		if err != nil || len(lds) != 1 {
			continue
		}
		ft, err := font.NewFont(lds[0])
		if err != nil || font.VerifCmapKind(ft.Cmap) != "cmap4" {
			continue
		}
		os2, err := lds[0].RawTable(ot.MustNewTag("OS/2"))
		if err != nil || len(os2) < 78 {
			continue
		}
		for _, v := range []struct {
			page   byte
			lo, hi int
			kind   string
		}{{0x00, 0xf020, 0xf0ff, "remaperSymbol"}, {0xb2, 0xf100, 0xf1ff, "remaperPUASimp"}, {0xb3, 0xf200, 0xf2ff, "remaperPUATrad"}} {
			nos2 := append([]byte(nil), os2[:78]...) // version 0 layout
			nos2[0], nos2[1] = 0, 0
			nos2[62] = v.page // high byte of fsSelection: the font page
			file := rebuildSfnt(data, map[string][]byte{"cmap": legacyCmap(v.lo, v.hi, 8), "OS/2": nos2})
			if file == nil {
				continue
			}
			l2, err := ot.NewLoaders(bytes.NewReader(file))
			if err != nil || len(l2) != 1 {
				emit(map[string]any{"fail": fmt.Sprintf("synthetic legacy font from %s: not loadable: %v", name, err), "kind": "harness"})
				continue
			}
			f2, err := font.NewFont(l2[0])
			if err != nil {
				emit(map[string]any{"fail": fmt.Sprintf("synthetic legacy font from %s: %v", name, err), "kind": "harness"})
				continue
			}
			if k := font.VerifCmapKind(f2.Cmap); k != v.kind {
				emit(map[string]any{"fail": fmt.Sprintf("synthetic legacy font from %s page %#x: cmap kind %s, expected %s", name, v.page, k, v.kind), "kind": "legacy-kind"})
			}
			sweepFont(fmt.Sprintf("legacy(%#x):%s", v.page, name), v.kind, f2, l2[0])
			hist["legacy="+v.kind]++
			n += maxRune
		}
		return n // one base font is enough
	}
	emit(map[string]any{"fail": "no corpus font suitable for the synthetic legacy fonts", "kind": "harness"})
	return n
}
