#!/bin/sh
# seedtest.sh <ID> <mutant dir>: confirm a seeded mutant in a scratch worktree, then run ./check ID against it in /repo.
set -u
id=$1; m=$2
export GOFLAGS=-mod=mod GOPROXY=off GOSUMDB=off GOTOOLCHAIN=local
w=/tmp/seedconfirm.$$
git -C /repo worktree add -q --detach $w HEAD
pkg=$(head -1 $m/demo_test.go | sed -n 's#.*place in: *\([^ ]*\).*#\1#p')
conf="build:?"
( cd $w && git apply $m/patch.diff && go build ./... ) >/dev/null 2>&1 && conf="build:ok" || conf="build:FAIL"
( cd $w && go test -vet=off -count=1 ./... >/tmp/seedtest.$$.log 2>&1 ) && conf="$conf suite:pass" || conf="$conf suite:FAIL"
cp $m/demo_test.go $w/$pkg/zz_demo_test.go
( cd $w && go test -vet=off -count=1 ./$pkg >/dev/null 2>&1 ) && conf="$conf demo+patch:PASS(bad)" || conf="$conf demo+patch:fails"
( cd $w && git apply -R $m/patch.diff && go test -vet=off -count=1 ./$pkg >/dev/null 2>&1 ) && conf="$conf demo-clean:passes" || conf="$conf demo-clean:FAILS(bad)"
git -C /repo worktree remove --force $w
echo "CONFIRM $id $(basename $m): $conf"
git -C /repo apply $m/patch.diff || { echo "patch does not apply to /repo"; exit 2; }
out=$(cd /verif && ./check $id 2>&1 | tail -3)
git -C /repo checkout -- .
( cd /verif/go && GOFLAGS=-mod=mod GOPROXY=off GOSUMDB=off GOTOOLCHAIN=local go run -tags verif ./cmd/gotocoq -out ../coq/Gen >/dev/null 2>&1; go run ./cmd/effects -repo /repo -out ../coq/Gen/Effects.v >/dev/null 2>&1 )  # tables back to the clean tree's
echo "$out" | grep -q "^VIOLATION" && echo "DETECTED $id $(basename $m): $(echo "$out" | grep ^VIOLATION)" || echo "MISSED $id $(basename $m): $out"
