#!/bin/sh
# Re-runs every stored seeded change against the current checks: applies seeded/<id>/patch.diff to /repo, runs the
# check of the property it breaks (meta.json "property"), expects a VIOLATION, restores /repo.
cd /verif
for d in /verif/seeded/*/; do
  n=$(basename $d)
  pid=$(python3 -c "import json;print(json.load(open('$d/meta.json'))['property'])")
  if ! git -C /repo apply --check $d/patch.diff 2>/dev/null; then echo "SKIP $n: patch no longer applies"; continue; fi
  git -C /repo apply $d/patch.diff
  out=$(./check $pid 2>&1 | grep "^VIOLATION" | head -1)
  git -C /repo checkout -- .
( cd /verif/go && GOFLAGS=-mod=mod GOPROXY=off GOSUMDB=off GOTOOLCHAIN=local go run -tags verif ./cmd/gotocoq -out ../coq/Gen >/dev/null 2>&1; go run ./cmd/effects -repo /repo -out ../coq/Gen/Effects.v >/dev/null 2>&1 )  # tables back to the clean tree's
  if [ -n "$out" ]; then echo "DETECTED $n by $pid: $out"; else echo "MISSED $n by $pid"; fi
done
