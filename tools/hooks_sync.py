#!/usr/bin/env python3
"""Rewrites MANIFEST.hooks.source_commits from /repo's history: every commit whose subject starts with 'verif hooks'."""
import json, subprocess
m = json.load(open('/verif/MANIFEST.json'))
out = subprocess.run(['git', '-C', '/repo', 'log', '--reverse', '--format=%h %s'], capture_output=True, text=True).stdout
m['hooks']['source_commits'] = [l.split()[0] for l in out.splitlines() if l.split(' ', 1)[1].startswith('verif hooks')]
json.dump(m, open('/verif/MANIFEST.json', 'w'), indent=1)
print(len(m['hooks']['source_commits']), 'hook commits')
