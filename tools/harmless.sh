#!/bin/sh
# harmless.sh <dir with H-<ID>/r<k>/patch.diff>: applies each behaviour-preserving rewrite to /repo, runs the check of its
# property and reports any VIOLATION line (a false alarm when it carries a concrete input), restores /repo.
cd /verif
for d in "$1"/H-C*-r* "$1"/H-C*/r*; do [ -d "$d" ] || continue
  case "$d" in */H-C*-r*) id=$(basename $d | sed "s/H-\(C[0-9]*\)-r.*/\1/"); k=$(basename $d | sed "s/.*-//");; *) id=$(basename $(dirname $d) | sed "s/H-//"); k=$(basename $d);; esac
  if ! git -C /repo apply --check $d/patch.diff 2>/dev/null; then echo "SKIP $id $k: patch does not apply"; continue; fi
  git -C /repo apply $d/patch.diff
  out=$(./check $id 2>&1 | grep "^VIOLATION" | head -1)
  git -C /repo checkout -- .
  ( cd /verif/go && GOFLAGS=-mod=mod GOPROXY=off GOSUMDB=off GOTOOLCHAIN=local go run -tags verif ./cmd/gotocoq -out ../coq/Gen >/dev/null 2>&1; go run ./cmd/effects -repo /repo -out ../coq/Gen/Effects.v >/dev/null 2>&1 )
  if [ -n "$out" ]; then echo "ALARM $id $k: $out"; else echo "QUIET $id $k"; fi
done
