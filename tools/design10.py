#!/usr/bin/env python3
"""Regenerates section 10 of DESIGN.md (as-built status) from MANIFEST, checks.d, Props, known_findings, seeded/.
The prose parts live in tools/design10_prose.md."""
import json, re, os, glob
R = '/verif'
p = R + '/DESIGN.md'
s = open(p).read()
marker = "\n--------------------------------------------------------------------------------------------------\n\n## 10. As built"
if marker in s:
    s = s[:s.index(marker)]
m = json.load(open(R + '/MANIFEST.json'))
kf = json.load(open(R + '/known_findings.json'))['findings']
rows, total = [], 0
for c in m['checks']:
    pid = c['property_id']
    cfg = json.load(open(R + '/checks.d/%s.json' % pid))
    src = open(R + '/coq/' + cfg['props']).read()
    th = re.findall(r"^\s*Theorem\s+([A-Za-z0-9_']+)", src, re.M)
    total += len(th)
    kn = [e['id'] for e in kf if e['property'] == pid and e['status'] == 'known']
    fx = [e['id'] for e in kf if e['property'] == pid and e['status'] == 'fixed']
    ties = ", ".join(d['model'] for d in cfg.get('drivers', []))
    ex = ", ".join(e.get('name', '') for e in cfg.get('extra', []))
    gen = ("T: gotocoq tables; " if cfg.get('gen') else "") + ("T: cmd/effects facts; " if cfg.get('pre_cmds') else "")
    rows.append("| %s | %d: %s | %sC: %s%s | %s | %s |" % (pid, len(th), ", ".join("`%s`" % t for t in th), gen, ties or "–",
                (" ; sweep: " + ex) if ex else "", ", ".join(kn) or "–", ", ".join(fx) or "–"))
table = "\n".join(rows)
fx = "\n".join("* %s" % e['line'] for e in kf if e['status'] == 'fixed' and e.get('line'))
kn = "\n".join("* **%s %s** — %s" % (e['property'], e['id'], e['what']) for e in kf if e['status'] == 'known')
seed = []
for d in sorted(glob.glob(R + '/seeded/*')):
    meta = json.load(open(d + '/meta.json'))
    cl = lambda x, n: (x or '')[:n].replace('|', '/').replace('\n', ' ')
    seed.append("| %s | %s | %s | %s |" % (os.path.basename(d), cl(meta.get('title'), 120), cl(meta.get('needs'), 170), cl(meta.get('check_result'), 400)))
prose = open(R + '/tools/design10_prose.md').read()
na = "\n".join("* **%s** — %s" % (e['property_id'], e['reason']) for e in m.get('not_applicable', []))
import subprocess
def _lines(pattern, exclude=None):
    n = 0
    for f in glob.glob(pattern, recursive=True):
        if exclude and exclude in f: continue
        try: n += sum(1 for _ in open(f, errors='ignore'))
        except Exception: pass
    return n
coq_lines = _lines(R + '/coq/**/*.v', '/Gen/')
go_lines = _lines(R + '/go/**/*.go')
sec = prose.replace('{COQ_LINES}', '%d' % coq_lines).replace('{GO_LINES}', '%d' % go_lines).replace('{TABLE}', table).replace('{TOTAL}', str(total)).replace('{NCHECKS}', str(len(m['checks']))) \
           .replace('{FIXED}', fx).replace('{KNOWN}', kn).replace('{SEEDS}', "\n".join(seed)).replace('{NSEEDS}', str(len(seed))) \
           .replace('{NOTAPPLICABLE}', na).replace('{HARMLESS}', open(R + '/tools/harmless_result.md').read().strip())
open(p, "w").write(s.rstrip("\n") + "\n" + marker + sec)
