#!/bin/sh
# Builds the whole Coq development (full .vo build) and the Go driver, offline.
set -e
cd "$(dirname "$0")"
export GOFLAGS=-mod=mod GOPROXY=off GOSUMDB=off GOTOOLCHAIN=local CGO_ENABLED=0
mkdir -p build evidence replays coq/Gen
REPO="${VERIF_REPO:-/repo}"
cp "$REPO/go.sum" go/go.sum
# tables regenerated from the working tree (the checks with "gen": true do the same on every run)
( cd go && go run -tags verif ./cmd/gotocoq -out ../coq/Gen )
( cd go && go run ./cmd/effects -repo "$REPO" -out ../coq/Gen/Effects.v )
( cd coq && { echo "-Q . TV"; for d in Lib Gen Model Spec Proofs Check Props Findings; do ls $d/*.v 2>/dev/null | LC_ALL=C sort; done; } > _CoqProject && coq_makefile -f _CoqProject -o Makefile >/dev/null && ( ulimit -s unlimited 2>/dev/null || true; timeout 7200 make -j16 ) )
cp "$REPO/go.sum" go/go.sum
( cd go && go build -tags verif -o ../build/drive ./cmd/drive )
echo setup done
