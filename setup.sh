#!/bin/sh
# Builds the whole Coq development (full .vo build) and the Go driver, offline.
set -e
cd "$(dirname "$0")"
export GOFLAGS=-mod=mod GOPROXY=off GOSUMDB=off GOTOOLCHAIN=local CGO_ENABLED=0
mkdir -p build evidence replays
( cd coq && coq_makefile -f _CoqProject -o Makefile >/dev/null && ( ulimit -s unlimited 2>/dev/null || true; timeout 7200 make -j16 ) )
cp /repo/go.sum go/go.sum
( cd go && go build -tags verif -o ../build/drive ./cmd/drive )
echo setup done
